import Pog.Lemmas.ParserFaithful
/-
  Lemmas about M-parser, part 5: faithfulness (C02) on a larger DAG fragment (`Simple2`).

  On top of `Simple` (object schemas whose properties are plain primitives or `$ref`s) a property may be
    * an array of plain primitives           `{type: array, items: {type: T}}`
    * an array of `$ref`s to declared schemas `{type: array, items: {$ref: …}}`
    * a map                                   `{type: object, additionalProperties: <primitive | $ref>}`
  and a declared schema may itself be such an array or a plain primitive alias.

  What is different from part 4:
    * an anonymous node (`name = None`) enters the tracker too (depth + 1, nothing pushed), so an array of
      `$ref` costs three levels of depth / fuel instead of one: `propCost`;
    * the items node of an array is parsed TWICE (schema_parser.py:782-844); with primitive items the first
      item object is orphaned, with `$ref` items the second parse finds the registered schema (`RefHit`);
    * a map property is parsed under the NAME `<Parent><Prop>` (`mapCtx`), is REGISTERED in `parsed_schemas`
      under that name and the property becomes a nameless reference holder.  The registry therefore holds
      names that are not declared (`WF2` only describes the declared ones), the tracker knows them
      (`TK2.own`, `Own`: a context name is only ever touched while its owner is being parsed), and they must
      neither collide with a declared name nor with each other (`Simple2.ctxFresh`, `Simple2.ctxInj`).
    * heap objects are described by what `irKind` reads of them (`Denotes`), transported along steps that may
      rename an object (`HStepW`: equal up to `name` / `hasEnum`).
-/
namespace Pog.Prs
open Pog Pog.Trk

/-! ### the fragment -/

def isMapNode : Node → Bool
  | .obj none _ (some _) => true
  | _ => false

/-- property nodes of the fragment: a leaf (`simpleProp`: plain primitive or `$ref` to a declared schema),
    an array of a leaf, a map of a leaf -/
def simpleProp2 (names : List Str) : Node → Bool
  | .prim ty e => simpleProp names (.prim ty e)
  | .ref t => simpleProp names (.ref t)
  | .arr i => simpleProp names i
  | .obj none _ (some a) => simpleProp names a
  | _ => false

def nodeProps : Node → List (Str × Node)
  | .obj (some ps) _ _ => ps
  | _ => []

def nodeReq : Node → List Str
  | .obj _ req _ => req
  | _ => []

/-- keys of the map properties of a declared node -/
def mapKeys (nd : Node) : List Str := ((nodeProps nd).filter (fun kv => isMapNode kv.2)).map (·.1)

/-- depth / fuel an anonymous leaf needs below itself: a `$ref` enters the anonymous node and the target -/
def leafCost (rank : Str → Nat) : Node → Nat
  | .ref t => rank t + 2
  | _ => 0

/-- what the owner's rank must at least be -/
def propCost (rank : Str → Nat) : Node → Nat
  | .ref t => rank t + 1
  | .arr i => leafCost rank i + 1
  | .obj none _ (some a) => leafCost rank a + 1
  | _ => 0

/-- the same for a declared (top-level) node that is not an object -/
def topCost (rank : Str → Nat) : Node → Nat
  | .arr i => leafCost rank i
  | _ => 0

def simpleNode2 (names : List Str) : Node → Bool
  | .obj (some ps) _ none =>
    ps.all (fun kv => !kv.1.isEmpty && simpleProp2 names kv.2) && decide ((ps.map (·.1)).Nodup)
  | .arr i => simpleProp names i
  | .prim _ false => true
  | _ => false

/-- `schema_name_for_parsing` of a non-simple property `k` of the schema `n` (schema_parser.py, `_parse_properties`) -/
def mapCtx (n k : Str) : Str :=
  if startsWith ((sanClass k).map lowerA) (n.map lowerA) then sanClass k else n ++ sanClass k

/-- the hypotheses of `parse_faithful_partial2` -/
structure Simple2 (decls : Decls) (rank : Str → Nat) : Prop where
  nodup : (decls.map (·.1)).Nodup
  node : ∀ d ∈ decls, simpleNode2 (decls.map (·.1)) d.2 = true
  name : ∀ d ∈ decls, d.1 ≠ [] ∧ sanClass d.1 = d.1
  cost : ∀ d ∈ decls, topCost rank d.2 ≤ rank d.1 ∧ ∀ kv ∈ nodeProps d.2, propCost rank kv.2 ≤ rank d.1
  ctxFresh : ∀ d ∈ decls, ∀ k ∈ mapKeys d.2,
    mapCtx d.1 k ∉ decls.map (·.1) ∧ sanClass (mapCtx d.1 k) = mapCtx d.1 k
  ctxInj : ∀ d ∈ decls, ∀ d' ∈ decls, ∀ k ∈ mapKeys d.2, ∀ k' ∈ mapKeys d'.2,
    mapCtx d.1 k = mapCtx d'.1 k' → d.1 = d'.1 ∧ k = k'

theorem mapCtx_ne_nil (n k : Str) : mapCtx n k ≠ [] := by
  unfold mapCtx
  split
  · exact sanClass_ne_nil k
  · intro h
    exact sanClass_ne_nil k (List.append_eq_nil_iff.mp h).2

/-! ### heap objects up to renaming -/

/-- everything `irKind` / `modelFields` read of an object -/
def IR.shape (o : IR) : IR := { o with name := none, hasEnum := false }

theorem shape_fields {o o' : IR} (h : o.shape = o'.shape) :
    o.kind = o'.kind ∧ o.refersTo = o'.refersTo ∧ o.type = o'.type ∧ o.items = o'.items ∧
    o.props = o'.props ∧ o.required = o'.required := by
  cases o; cases o'
  simp only [IR.shape, IR.mk.injEq, true_and] at h
  simp [IR.kind, h]

/-- the heap / registry part of a step, old objects kept up to `name` / `hasEnum` -/
structure HStepW (s s' : PSt) : Prop where
  reg : ∀ k i, dGet k s.reg = some i → dGet k s'.reg = some i
  heapLen : s.heap.length ≤ s'.heap.length
  heap : ∀ i, i < s.heap.length → (s'.get i).shape = (s.get i).shape
  fresh : ∀ k i, dGet k s'.reg = some i → dGet k s.reg = some i ∨ s.heap.length ≤ i

theorem HStep.toW {s s' : PSt} (h : HStep s s') : HStepW s s' :=
  ⟨h.reg, h.heapLen, fun i hi => by rw [h.heap i hi], h.fresh⟩

theorem HStepW.trans {a b c : PSt} (h1 : HStepW a b) (h2 : HStepW b c) : HStepW a c where
  reg := fun k i h => h2.reg k i (h1.reg k i h)
  heapLen := Nat.le_trans h1.heapLen h2.heapLen
  heap := fun i hi => by rw [h2.heap i (Nat.lt_of_lt_of_le hi h1.heapLen), h1.heap i hi]
  fresh := by
    intro k i h
    rcases h2.fresh k i h with e | e
    · exact h1.fresh k i e
    · exact Or.inr (Nat.le_trans h1.heapLen e)

/-- an unregistered full object -/
def Anon (s : PSt) (pid : Nat) : Prop :=
  pid < s.heap.length ∧ (s.get pid).kind = .full ∧ ∀ k i, dGet k s.reg = some i → i ≠ pid

theorem Anon.step {s s' : PSt} (h : HStepW s s') {pid : Nat} (ha : Anon s pid) : Anon s' pid := by
  obtain ⟨h1, h2, h3⟩ := ha
  refine ⟨Nat.lt_of_lt_of_le h1 h.heapLen, by rw [(shape_fields (h.heap pid h1)).1]; exact h2, ?_⟩
  intro k i hi
  rcases h.fresh k i hi with e | e
  · exact h3 k i e
  · exact fun e2 => by subst e2; exact absurd h1 (Nat.not_lt.mpr e)

/-- the heap object `pid` stands for the kind `K` (exactly what `irKind` will read) -/
def Denotes (names : List Str) (s : PSt) : Kind → Nat → Prop
  | .prim ty, pid => Anon s pid ∧ (s.get pid).refersTo = none ∧ (s.get pid).type = some ty.str
  | .ref t, pid => t ∈ names ∧ dGet t s.reg = some pid
  | .arr K, pid => Anon s pid ∧ (s.get pid).refersTo = none ∧ (s.get pid).type = some sArray ∧
      ∃ iid, (s.get pid).items = some iid ∧ Denotes names s K iid
  | .obj, pid => Anon s pid ∧ ∃ c mid, (s.get pid).refersTo = some mid ∧ c ∉ names ∧
      dGet c s.reg = some mid ∧ mid < s.heap.length ∧ (s.get mid).kind = .full ∧
      (s.get mid).refersTo = none ∧ (s.get mid).type = some sObject
  | .union, _ => False
  | .unknown, _ => False

theorem Denotes.step {names : List Str} {s s' : PSt} (h : HStepW s s') :
    ∀ (K : Kind) (pid : Nat), Denotes names s K pid → Denotes names s' K pid := by
  intro K
  induction K with
  | prim ty =>
    intro pid hd
    obtain ⟨h1, h2, h3⟩ := hd
    have hf := shape_fields (h.heap pid h1.1)
    exact ⟨h1.step h, by rw [hf.2.1]; exact h2, by rw [hf.2.2.1]; exact h3⟩
  | ref t =>
    intro pid hd
    exact ⟨hd.1, h.reg _ _ hd.2⟩
  | arr K ih =>
    intro pid hd
    obtain ⟨h1, h2, h3, iid, h4, h5⟩ := hd
    have hf := shape_fields (h.heap pid h1.1)
    exact ⟨h1.step h, by rw [hf.2.1]; exact h2, by rw [hf.2.2.1]; exact h3, iid,
      by rw [hf.2.2.2.1]; exact h4, ih iid h5⟩
  | obj =>
    intro pid hd
    obtain ⟨h1, c, mid, h2, h3, h4, h5, h6, h7, h8⟩ := hd
    have hf := shape_fields (h.heap pid h1.1)
    have hm := shape_fields (h.heap mid h5)
    exact ⟨h1.step h, c, mid, by rw [hf.2.1]; exact h2, h3, h.reg _ _ h4, Nat.lt_of_lt_of_le h5 h.heapLen,
      by rw [hm.1]; exact h6, by rw [hm.2.1]; exact h7, by rw [hm.2.2.1]; exact h8⟩
  | union => intro pid hd; exact hd.elim
  | unknown => intro pid hd; exact hd.elim

def FieldOK2 (names : List Str) (s : PSt) (kv : Str × Node) (e : Str × Nat) : Prop :=
  e.1 = kv.1 ∧ Denotes names s (nodeKind kv.2) e.2

theorem FieldOK2.step {names : List Str} {s s' : PSt} (h : HStepW s s') (kv : Str × Node) (e : Str × Nat)
    (hf : FieldOK2 names s kv e) : FieldOK2 names s' kv e :=
  ⟨hf.1, Denotes.step h _ _ hf.2⟩

/-- the heap object `i` is a faithful model of the declared schema `m` -/
def ModelOK2 (decls : Decls) (s : PSt) (m : Str) (i : Nat) : Prop :=
  ∃ nd fp, dGet m decls = some nd ∧ (s.get i).kind = .full ∧ (s.get i).props = fp ∧
    (s.get i).required = dedup (nodeReq nd) ∧ All2 (FieldOK2 (decls.map (·.1)) s) (nodeProps nd) fp

theorem ModelOK2.step {decls : Decls} {s s' : PSt} (h : HStepW s s') (m : Str) (i : Nat)
    (hi : i < s.heap.length) (hm : ModelOK2 decls s m i) : ModelOK2 decls s' m i := by
  obtain ⟨nd, fp, h1, h2, h3, h4, h5⟩ := hm
  have hf := shape_fields (h.heap i hi)
  exact ⟨nd, fp, h1, by rw [hf.1]; exact h2, by rw [hf.2.2.2.2.1]; exact h3, by rw [hf.2.2.2.2.2]; exact h4,
    All2.imp (fun a b hab => FieldOK2.step h a b hab) h5⟩

/-- every registered object exists; a registered DECLARED name has a faithful model; no object is
    registered twice -/
def WF2 (decls : Decls) (s : PSt) : Prop :=
  (∀ m i, dGet m s.reg = some i → i < s.heap.length ∧ (m ∈ decls.map (·.1) → ModelOK2 decls s m i)) ∧
  (∀ m m' i, dGet m s.reg = some i → dGet m' s.reg = some i → m = m')

theorem WF2.step {decls : Decls} {s s' : PSt} (h : HStepW s s') (hreg : s'.reg = s.reg) (hw : WF2 decls s) :
    WF2 decls s' := by
  refine ⟨?_, ?_⟩
  · intro m i hm
    rw [hreg] at hm
    obtain ⟨h1, h2⟩ := hw.1 m i hm
    exact ⟨Nat.lt_of_lt_of_le h1 h.heapLen, fun hmem => ModelOK2.step h m i h1 (h2 hmem)⟩
  · intro m m' i h1 h2
    rw [hreg] at h1 h2
    exact hw.2 m m' i h1 h2

theorem WF2.congr {decls : Decls} {s s' : PSt} (hh : s'.heap = s.heap) (hr : s'.reg = s.reg) (hw : WF2 decls s) :
    WF2 decls s' :=
  WF2.step (hstep_of_eq hh hr).toW hr hw

theorem Denotes.congr {names : List Str} {s s' : PSt} (hh : s'.heap = s.heap) (hr : s'.reg = s.reg) {K : Kind}
    {pid : Nat} (hd : Denotes names s K pid) : Denotes names s' K pid :=
  Denotes.step (hstep_of_eq hh hr).toW K pid hd

theorem kind_full_flags {o : IR} (h : o.kind = .full) :
    o.depthMarker = false ∧ o.circular = false ∧ o.selfStub = false ∧ o.unresolved = false := by
  unfold IR.kind at h
  cases h1 : o.depthMarker <;> cases h2 : o.circular <;> cases h3 : o.selfStub <;> cases h4 : o.unresolved <;>
    simp [h1, h2, h3, h4] at h ⊢


/-! ### tracker ↔ registry coherence -/

/-- as `TK`, plus: an untouched name is unregistered, and a context name has only been touched if its
    owner has -/
def TK2 (decls : Decls) (rank : Str → Nat) (s : PSt) (R : Nat) : Prop :=
  s.tr.cycles = [] ∧
  (∀ m ∈ s.tr.stack, dGet m s.tr.states = some .inProgress) ∧
  (∀ m, (dGet m s.tr.states = none ∧ s.regHas m = false) ∨
        (dGet m s.tr.states = some .completed ∧ s.regHas m = true) ∨
        (dGet m s.tr.states = some .inProgress ∧ (m ∈ decls.map (·.1) → R ≤ rank m) ∧ s.regHas m = false)) ∧
  (∀ d ∈ decls, ∀ k ∈ mapKeys d.2, dGet (mapCtx d.1 k) s.tr.states ≠ none → dGet d.1 s.tr.states ≠ none)

/-- a context name (not in `ex`) whose tracker state changed belongs to an owner that was parsed from
    start to end within the step -/
def Own (decls : Decls) (ex : List Str) (s s' : PSt) : Prop :=
  ∀ d ∈ decls, ∀ k ∈ mapKeys d.2, mapCtx d.1 k ∉ ex →
    dGet (mapCtx d.1 k) s'.tr.states ≠ dGet (mapCtx d.1 k) s.tr.states →
    dGet d.1 s.tr.states = none ∧ dGet d.1 s'.tr.states = some .completed

theorem Own.of_states_eq {decls : Decls} {ex : List Str} {s s' : PSt} (h : s'.tr.states = s.tr.states) :
    Own decls ex s s' := by
  intro d _ k _ _ hne
  rw [h] at hne
  exact absurd rfl hne

theorem Own.mono {decls : Decls} {ex ex' : List Str} {s s' : PSt} (hsub : ∀ c ∈ ex, c ∈ ex')
    (h : Own decls ex s s') : Own decls ex' s s' :=
  fun d hd k hk hnot hne => h d hd k hk (fun hc => hnot (hsub _ hc)) hne

theorem Own.trans {decls : Decls} {ex : List Str} {a b c : PSt} (s1 : Step a b) (s2 : Step b c)
    (o1 : Own decls ex a b) (o2 : Own decls ex b c) : Own decls ex a c := by
  intro d hd k hk hnot hne
  by_cases e1 : dGet (mapCtx d.1 k) b.tr.states = dGet (mapCtx d.1 k) a.tr.states
  · have e2 : dGet (mapCtx d.1 k) c.tr.states ≠ dGet (mapCtx d.1 k) b.tr.states := by rw [e1]; exact hne
    obtain ⟨x1, x2⟩ := o2 d hd k hk hnot e2
    refine ⟨?_, x2⟩
    rcases s1.states d.1 with e | ⟨_, e, _⟩
    · rw [← e]; exact x1
    · rw [x1] at e; cases e
  · obtain ⟨x1, x2⟩ := o1 d hd k hk hnot e1
    refine ⟨x1, ?_⟩
    rcases s2.states d.1 with e | ⟨e, _, _⟩
    · rw [e]; exact x2
    · rw [x2] at e; cases e

theorem TK2.step {decls : Decls} {rank : Str → Nat} {ex : List Str} {s s' : PSt} {R : Nat} (h : Step s s')
    (o : Own decls ex s s')
    (hex : ∀ d ∈ decls, ∀ k ∈ mapKeys d.2, mapCtx d.1 k ∈ ex → dGet d.1 s'.tr.states ≠ none)
    (hk : TK2 decls rank s R) : TK2 decls rank s' R := by
  obtain ⟨hc, hst, hall, hown⟩ := hk
  refine ⟨by rw [h.cycles]; exact hc, ?_, ?_, ?_⟩
  · intro m hm
    rw [h.stack] at hm
    rcases h.states m with e | ⟨e, _, _⟩
    · rw [e]; exact hst m hm
    · rw [hst m hm] at e; cases e
  · intro m
    rcases h.states m with e | ⟨_, e', r⟩
    · have hno : s.regHas m = false → s'.regHas m = false := by
        intro c
        cases hr : s'.regHas m with
        | false => rfl
        | true =>
          rcases h.regNew m hr with x | ⟨x, x'⟩
          · rw [c] at x; cases x
          · rw [e, x] at x'; cases x'
      rcases hall m with ⟨a, b⟩ | ⟨a, b⟩ | ⟨a, b, c⟩
      · exact Or.inl ⟨by rw [e]; exact a, hno b⟩
      · exact Or.inr (Or.inl ⟨by rw [e]; exact a, h.regMono m b⟩)
      · exact Or.inr (Or.inr ⟨by rw [e]; exact a, b, hno c⟩)
    · exact Or.inr (Or.inl ⟨e', r⟩)
  · intro d hd k hk hne
    by_cases hin : mapCtx d.1 k ∈ ex
    · exact hex d hd k hk hin
    · by_cases e : dGet (mapCtx d.1 k) s'.tr.states = dGet (mapCtx d.1 k) s.tr.states
      · rw [e] at hne
        have := hown d hd k hk hne
        rcases h.states d.1 with e1 | ⟨_, e1, _⟩
        · rw [e1]; exact this
        · rw [e1]; exact fun x => by cases x
      · rw [(o d hd k hk hin e).2]
        exact fun x => by cases x

theorem TK2.anti {decls : Decls} {rank : Str → Nat} {s : PSt} {R R' : Nat} (h : TK2 decls rank s R) (hr : R' ≤ R) :
    TK2 decls rank s R' := by
  obtain ⟨hc, hst, hall, hown⟩ := h
  refine ⟨hc, hst, fun m => ?_, hown⟩
  rcases hall m with a | a | ⟨a, b, c⟩
  · exact Or.inl a
  · exact Or.inr (Or.inl a)
  · exact Or.inr (Or.inr ⟨a, fun hm => Nat.le_trans hr (b hm), c⟩)

theorem TK2.congr {decls : Decls} {rank : Str → Nat} {s s' : PSt} {R : Nat} (hc : s'.tr.cycles = s.tr.cycles)
    (hst : s'.tr.stack = s.tr.stack) (hs : s'.tr.states = s.tr.states) (hr : s'.reg = s.reg)
    (h : TK2 decls rank s R) : TK2 decls rank s' R := by
  unfold TK2 PSt.regHas at *
  rw [hc, hst, hs, hr]
  exact h

/-! ### steps given by explicit equations -/

theorem TrSame.trans {a b c : TrSt} (h1 : TrSame a b) (h2 : TrSame b c) : TrSame a c := by
  obtain ⟨a1, a2, a3, a4, a5⟩ := h1
  obtain ⟨b1, b2, b3, b4, b5⟩ := h2
  exact ⟨by rw [b1, a1], by rw [b2, a2], by rw [b3, a3], by rw [b4, a4], by rw [b5, a5]⟩

theorem TrSame.rfl' (t : TrSt) : TrSame t t := ⟨rfl, rfl, rfl, rfl, rfl⟩

theorem hstep_of_ext {s s' : PSt} (l : List IR) (hh : s'.heap = s.heap ++ l) (hr : s'.reg = s.reg) : HStep s s' := by
  refine ⟨fun k i h => by rw [hr]; exact h, by rw [hh]; simp, ?_, fun k i h => Or.inl (by rw [← hr]; exact h)⟩
  intro i hi
  unfold PSt.get
  rw [hh]
  exact getD_append_left _ _ i hi

/-- pure heap extension, tracker unchanged -/
theorem step_of_ext {s s' : PSt} (l : List IR) (hh : s'.heap = s.heap ++ l) (hr : s'.reg = s.reg)
    (ho : s'.oom = s.oom) (ht : TrSame s.tr s'.tr) : Step s s' := by
  have hs := hstep_of_ext l hh hr
  exact ⟨ht.1, ht.2.1, ht.2.2.1, ht.2.2.2.1, fun m => Or.inl (by rw [ht.2.2.2.2]), hs.reg, hs.heapLen, hs.heap,
    hs.fresh, fun k h => Or.inl (by unfold PSt.regHas at h ⊢; rw [← hr]; exact h), ho⟩

theorem get_ext {s s' : PSt} (l : List IR) (hh : s'.heap = s.heap ++ l) (j : Nat) :
    s'.get (s.heap.length + j) = l.getD j {} := by
  unfold PSt.get
  rw [hh]
  simp [List.getD, List.getElem?_append_right]

theorem get_modify (s : PSt) (j : Nat) (f : IR → IR) (i : Nat) :
    (s.modify j f).get i = if i = j ∧ i < s.heap.length then f (s.get i) else s.get i := by
  unfold PSt.get PSt.modify
  simp only [List.getD, List.getElem?_modify]
  by_cases hij : j = i
  · subst hij
    by_cases hl : j < s.heap.length
    · simp [hl]
    · simp [hl]
  · have : ¬ i = j := fun e => hij e.symm
    simp [hij, this]

/-- renaming a fresh object keeps everything -/
theorem rename_hstepW (s : PSt) (j : Nat) (f : IR → IR) (hf : ∀ o, (f o).shape = o.shape) :
    HStepW s (s.modify j f) := by
  refine ⟨fun k i h => h, by simp [PSt.modify], ?_, fun k i h => Or.inl h⟩
  intro i _
  rw [get_modify]
  split
  · exact hf _
  · rfl

theorem Step.modify_fresh {s s' : PSt} (h : Step s s') (j : Nat) (f : IR → IR) (hj : s.heap.length ≤ j) :
    Step s (s'.modify j f) := by
  refine ⟨h.stack, h.depth, h.maxDepth, h.cycles, h.states, h.reg, ?_, ?_, h.fresh, h.regNew, h.oom⟩
  · simpa [PSt.modify] using h.heapLen
  · intro i hi
    rw [get_modify]
    have : ¬ (i = j ∧ i < s'.heap.length) := fun e => by omega
    simp only [this, if_false]
    exact h.heap i hi


/-! ### contracts of the callback -/

def Pre2 (decls : Decls) (rank : Str → Nat) (s : PSt) (n : Str) : Prop :=
  WF2 decls s ∧ TK2 decls rank s (rank n + 1) ∧ s.regHas n = false ∧ s.tr.depth + rank n + 1 ≤ s.tr.maxDepth

def Post2 (decls : Decls) (s : PSt) (n : Str) (q : Nat × PSt) : Prop :=
  Step s q.2 ∧ Own decls [] s q.2 ∧ WF2 decls q.2 ∧ dGet n q.2.reg = some q.1

/-- result of parsing an anonymous property node: a fresh object that denotes the kind -/
def AnonPost (decls : Decls) (s : PSt) (q : Nat × PSt) (K : Kind) : Prop :=
  Step s q.2 ∧ Own decls [] s q.2 ∧ WF2 decls q.2 ∧ Denotes (decls.map (·.1)) q.2 K q.1 ∧ s.heap.length ≤ q.1

/-- contract on every declared name of rank `< r` -/
def SpecP2 (decls : Decls) (rank : Str → Nat) (P : PFn) (r : Nat) : Prop :=
  ∀ n nd s, dGet n decls = some nd → rank n < r → Pre2 decls rank s n → Post2 decls s n (P (some n) nd true s)

/-- an anonymous `$ref` node whose target is registered: the registered object, nothing changes -/
def RefHit (P : PFn) : Prop := ∀ (t : Str) (s : PSt) (rid : Nat),
  t.contains '/' = false → t ≠ [] → dGet t s.reg = some rid → (s.get rid).depthMarker = false →
  (P none (.ref t) true s).1 = rid ∧
  (P none (.ref t) true s).2.heap = s.heap ∧
  (P none (.ref t) true s).2.reg = s.reg ∧
  (P none (.ref t) true s).2.oom = s.oom ∧
  TrSame s.tr (P none (.ref t) true s).2.tr

/-- an anonymous `$ref` node in general -/
def RefSpec (decls : Decls) (rank : Str → Nat) (P : PFn) (r : Nat) : Prop :=
  ∀ t nd s R, dGet t decls = some nd → t.contains '/' = false → t ≠ [] → rank t + 1 < r → rank t < R →
    s.tr.depth + rank t + 2 ≤ s.tr.maxDepth → WF2 decls s → TK2 decls rank s R →
    Post2 decls s t (P none (.ref t) true s)

/-- an anonymous array of a leaf -/
def ArrSpec (decls : Decls) (rank : Str → Nat) (P : PFn) (r : Nat) : Prop :=
  ∀ i s R, simpleProp (decls.map (·.1)) i = true → leafCost rank i < r → leafCost rank i ≤ R →
    s.tr.depth + leafCost rank i + 1 ≤ s.tr.maxDepth → WF2 decls s → TK2 decls rank s R →
    AnonPost decls s (P none (.arr i) true s) (.arr (nodeKind i))

/-- a map of a leaf, parsed under the context name `c` -/
def MapSpec (decls : Decls) (rank : Str → Nat) (P : PFn) (r : Nat) : Prop :=
  ∀ c a req s R, c ∉ decls.map (·.1) → sanClass c = c → c ≠ [] → simpleProp (decls.map (·.1)) a = true →
    leafCost rank a < r → leafCost rank a ≤ R → s.tr.depth + leafCost rank a + 1 ≤ s.tr.maxDepth →
    WF2 decls s → TK2 decls rank s R → dGet c s.tr.states = none →
    (∀ d ∈ decls, ∀ k ∈ mapKeys d.2, mapCtx d.1 k = c → dGet d.1 s.tr.states ≠ none) →
    Step s (P (some c) (.obj none req (some a)) true s).2 ∧
    Own decls [c] s (P (some c) (.obj none req (some a)) true s).2 ∧
    WF2 decls (P (some c) (.obj none req (some a)) true s).2 ∧
    dGet c (P (some c) (.obj none req (some a)) true s).2.reg = some (P (some c) (.obj none req (some a)) true s).1 ∧
    (P (some c) (.obj none req (some a)) true s).1 < (P (some c) (.obj none req (some a)) true s).2.heap.length ∧
    ∃ ai, (P (some c) (.obj none req (some a)) true s).2.get (P (some c) (.obj none req (some a)) true s).1 =
      { name := some c, type := some sObject, required := dedup req, addl := some ai }

structure Spec2 (decls : Decls) (rank : Str → Nat) (P : PFn) (r : Nat) : Prop where
  prim : PrimSpec P
  hit : RefHit P
  named : SpecP2 decls rank P r
  ref : RefSpec decls rank P r
  arr : ArrSpec decls rank P r
  map : MapSpec decls rank P r

/-! ### anonymous frames -/

def anonIn (s : PSt) : PSt :=
  { s with nest := s.nest + 1, maxNest := max s.maxNest (s.nest + 1),
           tr := { s.tr with allowSelf := true, depth := s.tr.depth + 1 },
           trace := s.trace ++ [.enter none true .continueParsing] }

def anonOut (s : PSt) : PSt :=
  { (s.doExit none) with nest := (s.doExit none).nest - 1 }

theorem parseStep_anon_eq (decls : Decls) (P : PFn) (node : Node) (s : PSt) :
    parseStep decls P none node true s =
      ((body decls P none node true (anonIn s)).1, anonOut (body decls P none node true (anonIn s)).2) := by
  simp [parseStep, parseCore, PSt.doEnter, Trk.enter, bodyAndExit, anonIn, anonOut]

theorem step_anon {s s2 : PSt} (h : Step (anonIn s) s2) : Step s (anonOut s2) := by
  refine ⟨h.stack, ?_, h.maxDepth, h.cycles, h.states, h.reg, h.heapLen, h.heap, h.fresh, h.regNew, h.oom⟩
  show s2.tr.depth - 1 = s.tr.depth
  rw [h.depth]
  show s.tr.depth + 1 - 1 = s.tr.depth
  omega

theorem own_anon {decls : Decls} {ex : List Str} {s s2 : PSt} (h : Own decls ex (anonIn s) s2) :
    Own decls ex s (anonOut s2) := h

theorem TK2.anonIn {decls : Decls} {rank : Str → Nat} {s : PSt} {R : Nat} (h : TK2 decls rank s R) :
    TK2 decls rank (anonIn s) R := h

theorem WF2.anonIn {decls : Decls} {s : PSt} (h : WF2 decls s) : WF2 decls (Prs.anonIn s) :=
  WF2.congr (s := s) (s' := Prs.anonIn s) rfl rfl h
theorem WF2.anonOut {decls : Decls} {s : PSt} (h : WF2 decls s) : WF2 decls (Prs.anonOut s) :=
  WF2.congr (s := s) (s' := Prs.anonOut s) rfl rfl h
theorem Denotes.anonOut {names : List Str} {s : PSt} {K : Kind} {pid : Nat} (h : Denotes names s K pid) :
    Denotes names (Prs.anonOut s) K pid := Denotes.congr (s := s) (s' := Prs.anonOut s) rfl rfl h

/-! ### `parseStep` on the leaves -/

theorem parseStep_refHit (decls : Decls) (P : PFn) : RefHit (parseStep decls P) := by
  intro t s rid hno hne hg hdm
  have hemp : t.isEmpty = false := by
    cases t with
    | nil => exact absurd rfl hne
    | cons c cs => rfl
  have hg' : dGet t (anonIn s).reg = some rid := hg
  have hdm' : ((anonIn s).get rid).depthMarker = false := hdm
  rw [parseStep_anon_eq]
  have hb : body decls P none (.ref t) true (anonIn s) = (rid, anonIn s) := by
    simp [body, Node.core, resolveRef, lastSeg_of_no_slash t hno, hemp, hg', hdm']
  rw [hb]
  refine ⟨rfl, rfl, rfl, rfl, rfl, ?_, rfl, rfl, rfl⟩
  show s.tr.depth = s.tr.depth + 1 - 1
  omega

theorem sanClass_of_declared2 (decls : Decls) (rank : Str → Nat) (hS : Simple2 decls rank) (m : Str)
    (hm : m ∈ decls.map (·.1)) : sanClass m = m := by
  obtain ⟨d, hd, rfl⟩ := List.mem_map.mp hm
  exact (hS.name d hd).2

theorem mem_names_of_dGet (decls : Decls) (t : Str) (nd : Node) (h : dGet t decls = some nd) :
    t ∈ decls.map (·.1) :=
  List.mem_map.mpr ⟨(t, nd), mem_of_dGet decls t nd h, rfl⟩

/-- `_resolve_ref` on a declared target -/
theorem resolveRef_spec2 (decls : Decls) (rank : Str → Nat) (P : PFn) (r : Nat) (hP : SpecP2 decls rank P r)
    (t : Str) (nd : Node) (s : PSt) (hw : WF2 decls s) (hk : TK2 decls rank s (rank t + 1))
    (ht : dGet t decls = some nd) (hno : t.contains '/' = false) (hne : t ≠ []) (hr : rank t < r)
    (hd : s.tr.depth + rank t + 1 ≤ s.tr.maxDepth) :
    Post2 decls s t (resolveRef decls P t true s) := by
  unfold resolveRef
  have hemp : t.isEmpty = false := by
    cases t with
    | nil => exact absurd rfl hne
    | cons c cs => rfl
  simp only [lastSeg_of_no_slash t hno, hemp, Bool.false_eq_true, if_false]
  cases hg : dGet t s.reg with
  | some id =>
    obtain ⟨_, hm⟩ := hw.1 t id hg
    obtain ⟨_, _, _, hfull, _⟩ := hm (mem_names_of_dGet decls t nd ht)
    have hdm : (s.get id).depthMarker = false := (kind_full_flags hfull).1
    simp only [hdm, Bool.not_false, if_true]
    exact ⟨Step.refl s, Own.of_states_eq rfl, hw, hg⟩
  | none =>
    simp only [ht]
    exact hP t nd s ht hr ⟨hw, hk, by unfold PSt.regHas dHas; rw [hg]; rfl, hd⟩

theorem parseStep_refSpec (decls : Decls) (rank : Str → Nat) (P : PFn) (r : Nat) (hP : SpecP2 decls rank P r) :
    RefSpec decls rank (parseStep decls P) (r + 1) := by
  intro t nd s R ht hno hne hr hR hd hw hk
  rw [parseStep_anon_eq]
  have hb : body decls P none (.ref t) true (anonIn s) = resolveRef decls P t true (anonIn s) := by
    simp [body, Node.core]
  rw [hb]
  have hd' : (anonIn s).tr.depth + rank t + 1 ≤ (anonIn s).tr.maxDepth := by
    show s.tr.depth + 1 + rank t + 1 ≤ s.tr.maxDepth
    omega
  obtain ⟨h1, h2, h3, h4⟩ := resolveRef_spec2 decls rank P r hP t nd (anonIn s) hw.anonIn
    (TK2.anti hk.anonIn (by omega)) ht hno hne (by omega) hd'
  exact ⟨step_anon h1, own_anon h2, h3.anonOut, h4⟩


/-! ### an anonymous array node -/

theorem parseItems_leaf (names : List Str) (P : PFn) (i : Node) (s : PSt) (h : simpleProp names i = true) :
    parseItems P none i true s = P none i true s := by
  rcases simpleProp_cases _ i h with ⟨ty, e⟩ | ⟨t, e, _⟩
  · subst e
    simp [parseItems, itemName, Node.isRef, Node.isPrim, Node.core, Node.isObjType]
  · subst e
    simp [parseItems, itemName, Node.isRef, Node.isPrim, Node.core, Node.isObjType]

theorem body_arr_eq (decls : Decls) (P : PFn) (i : Node) (s : PSt)
    (h : simpleProp (decls.map (·.1)) i = true) :
    body decls P none (.arr i) true s =
      (let qa := P none i true s
       let a := qa.2.alloc { type := some sArray, items := some qa.1 }
       let qc := P none i true a.2
       (a.1, qc.2.modify a.1 (fun o => { o with items := some qc.1 }))) := by
  simp [body, Node.core, truthy, parseItems_leaf _ P i _ h, mkIR, finish]

theorem modify_append_add {α : Type} (l l' : List α) (j : Nat) (f : α → α) :
    (l ++ l').modify (l.length + j) f = l ++ l'.modify j f := by
  induction l with
  | nil => simp
  | cons a l ih =>
    have : (a :: l).length + j = (l.length + j) + 1 := by simp; omega
    rw [this]
    simp [ih]

theorem wf2_reg_lt {decls : Decls} {s : PSt} (hw : WF2 decls s) (k : Str) (i : Nat) (h : dGet k s.reg = some i) :
    i < s.heap.length := (hw.1 k i h).1

theorem parseStep_arrSpec (decls : Decls) (rank : Str → Nat) (P : PFn) (r : Nat) (hS : Simple2 decls rank)
    (hPrim : PrimSpec P) (hHit : RefHit P) (hRef : RefSpec decls rank P r) :
    ArrSpec decls rank (parseStep decls P) (r + 1) := by
  intro i s R hi hr hR hd hw hk
  rw [parseStep_anon_eq, body_arr_eq decls P i _ hi]
  simp only []
  rcases simpleProp_cases _ i hi with ⟨ty, e⟩ | ⟨t, e, hmem, hno, hne⟩
  · -- primitive items: three fresh objects, the first item is orphaned
    subst e
    obtain ⟨a1, a2, a3, a4, a5⟩ := hPrim ty (anonIn s)
    generalize P none (.prim ty false) true (anonIn s) = qa at a1 a2 a3 a4 a5 ⊢
    obtain ⟨qai, qas⟩ := qa
    simp only at a1 a2 a3 a4 a5 ⊢
    subst a1
    generalize hal : qas.alloc { type := some sArray, items := some (anonIn s).heap.length } = al
    have hal1 : al.1 = s.heap.length + 1 := by rw [← hal]; show qas.heap.length = _; rw [a2]; simp [anonIn]
    have hal2 : al.2.heap = s.heap ++ [{ type := some ty.str },
        { type := some sArray, items := some s.heap.length }] := by
      rw [← hal]; show qas.heap ++ _ = _; rw [a2]; simp [anonIn]
    have halr : al.2.reg = s.reg := by rw [← hal]; exact a3
    have halo : al.2.oom = s.oom := by rw [← hal]; exact a4
    have halt : TrSame (anonIn s).tr al.2.tr := by rw [← hal]; exact a5
    obtain ⟨c1, c2, c3, c4, c5⟩ := hPrim ty al.2
    generalize P none (.prim ty false) true al.2 = qc at c1 c2 c3 c4 c5 ⊢
    obtain ⟨qci, qcs⟩ := qc
    simp only at c1 c2 c3 c4 c5 ⊢
    subst c1
    have hlen : al.2.heap.length = s.heap.length + 2 := by rw [hal2]; simp
    generalize hsd : qcs.modify al.1 (fun o => { o with items := some al.2.heap.length }) = sd
    have hsdh : sd.heap = s.heap ++ [{ type := some ty.str },
        { type := some sArray, items := some (s.heap.length + 2) }, { type := some ty.str }] := by
      rw [← hsd]
      show qcs.heap.modify al.1 _ = _
      rw [c2, hlen, hal2, hal1]
      rw [List.append_assoc, modify_append_add]
      rfl
    have hsdr : sd.reg = s.reg := by rw [← hsd]; show qcs.reg = _; rw [c3, halr]
    have hsdo : sd.oom = s.oom := by rw [← hsd]; show qcs.oom = _; rw [c4, halo]
    have hsdt : TrSame (anonIn s).tr sd.tr := by rw [← hsd]; exact TrSame.trans halt c5
    have hstep : Step (anonIn s) sd := step_of_ext _ hsdh hsdr hsdo hsdt
    have hwd : WF2 decls sd := WF2.step (hstep_of_ext _ hsdh hsdr).toW hsdr hw
    have hunreg : ∀ j, s.heap.length ≤ j → ∀ k i, dGet k sd.reg = some i → i ≠ j := by
      intro j hj k i hki
      rw [hsdr] at hki
      have := wf2_reg_lt hw k i hki
      omega
    have hg1 : sd.get (s.heap.length + 1) = { type := some sArray, items := some (s.heap.length + 2) } := by
      rw [get_ext _ hsdh 1]; rfl
    have hg2 : sd.get (s.heap.length + 2) = { type := some ty.str } := by
      rw [get_ext _ hsdh 2]; rfl
    have hsdl : sd.heap.length = s.heap.length + 3 := by rw [hsdh]; simp
    rw [hal1]
    refine ⟨step_anon hstep, own_anon (Own.of_states_eq hsdt.2.2.2.2), hwd.anonOut, Denotes.anonOut ?_, by
      show s.heap.length ≤ s.heap.length + 1; omega⟩
    refine ⟨⟨by omega, by rw [hg1]; rfl, hunreg _ (by omega)⟩, by rw [hg1], by rw [hg1], s.heap.length + 2,
      by rw [hg1], ?_⟩
    exact ⟨⟨by omega, by rw [hg2]; rfl, hunreg _ (by omega)⟩, by rw [hg2], by rw [hg2]⟩
  · -- `$ref` items: the second parse finds the registered schema
    subst e
    obtain ⟨nd, hnd⟩ := dGet_of_mem_keys decls t hmem
    have hrk : rank t + 2 < r + 1 := hr
    have hd' : (anonIn s).tr.depth + rank t + 2 ≤ (anonIn s).tr.maxDepth := by
      show s.tr.depth + 1 + rank t + 2 ≤ s.tr.maxDepth
      have : s.tr.depth + (rank t + 2) + 1 ≤ s.tr.maxDepth := hd
      omega
    have hR' : rank t + 2 ≤ R := hR
    obtain ⟨a1, a2, a3, a4⟩ := hRef t nd (anonIn s) R hnd hno hne (by omega) (by omega) hd' hw.anonIn hk.anonIn
    generalize P none (.ref t) true (anonIn s) = qa at a1 a2 a3 a4 ⊢
    obtain ⟨rid, qas⟩ := qa
    simp only at a1 a2 a3 a4 ⊢
    have hridlt : rid < qas.heap.length := wf2_reg_lt a3 t rid a4
    generalize hal : qas.alloc { type := some sArray, items := some rid } = al
    have hal1 : al.1 = qas.heap.length := by rw [← hal]; rfl
    have hal2 : al.2.heap = qas.heap ++ [{ type := some sArray, items := some rid }] := by rw [← hal]; rfl
    have halr : al.2.reg = qas.reg := by rw [← hal]; rfl
    have halo : al.2.oom = qas.oom := by rw [← hal]; rfl
    have halt : al.2.tr = qas.tr := by rw [← hal]; rfl
    have hdm : (al.2.get rid).depthMarker = false := by
      have : al.2.get rid = qas.get rid := by
        unfold PSt.get; rw [hal2]; exact getD_append_left _ _ _ hridlt
      rw [this]
      obtain ⟨_, _, _, hfull, _⟩ := (a3.1 t rid a4).2 hmem
      exact (kind_full_flags hfull).1
    obtain ⟨c1, c2, c3, c4, c5⟩ := hHit t al.2 rid hno hne (by rw [halr]; exact a4) hdm
    generalize P none (.ref t) true al.2 = qc at c1 c2 c3 c4 c5 ⊢
    obtain ⟨qci, qcs⟩ := qc
    simp only at c1 c2 c3 c4 c5 ⊢
    subst c1
    generalize hsd : qcs.modify al.1 (fun o => { o with items := some qci }) = sd
    have hsdh : sd.heap = qas.heap ++ [{ type := some sArray, items := some qci }] := by
      rw [← hsd]
      show qcs.heap.modify al.1 _ = _
      rw [c2, hal2, hal1, modify_append_length]
    have hsdr : sd.reg = qas.reg := by rw [← hsd]; show qcs.reg = _; rw [c3, halr]
    have hsdo : sd.oom = qas.oom := by rw [← hsd]; show qcs.oom = _; rw [c4, halo]
    have hsdt : TrSame qas.tr sd.tr := by rw [← hsd, ← halt]; exact c5
    have hstep : Step qas sd := step_of_ext _ hsdh hsdr hsdo hsdt
    have hwd : WF2 decls sd := WF2.step (hstep_of_ext _ hsdh hsdr).toW hsdr a3
    have hg1 : sd.get qas.heap.length = { type := some sArray, items := some qci } := by
      have := get_ext _ hsdh 0
      simpa using this
    rw [hal1]
    refine ⟨step_anon (Step.trans a1 hstep),
      own_anon (Own.trans a1 hstep a2 (Own.of_states_eq hsdt.2.2.2.2)), hwd.anonOut, Denotes.anonOut ?_, by
      show s.heap.length ≤ qas.heap.length; exact a1.heapLen⟩
    refine ⟨⟨by rw [hsdh]; simp, by rw [hg1]; rfl, ?_⟩, by rw [hg1], by rw [hg1], qci, by rw [hg1], ?_⟩
    · intro k i hki
      rw [hsdr] at hki
      exact Nat.ne_of_lt (wf2_reg_lt a3 k i hki)
    · have hsan := sanClass_of_declared2 decls rank hS t hmem
      show Denotes _ sd (.ref (sanClass (lastSeg t))) qci
      rw [lastSeg_of_no_slash t hno, hsan]
      exact ⟨hmem, by rw [hsdr]; exact a4⟩


/-! ### named frames -/

theorem parseStep_named_eq (decls : Decls) (P : PFn) (n : Str) (node : Node) (s : PSt)
    (he : Trk.enter s.tr (some n) true = (enteredTr s.tr n, { action := .continueParsing })) :
    parseStep decls P (some n) node true s =
      ((body decls P (some n) node true (afterEnter s n)).1,
       { ((body decls P (some n) node true (afterEnter s n)).2.doExit (some n)) with
         nest := ((body decls P (some n) node true (afterEnter s n)).2.doExit (some n)).nest - 1 }) := by
  simp [parseStep, parseCore, PSt.doEnter, he, bodyAndExit, afterEnter]

/-- the object is registered under its own name unless it is a synthesized primitive -/
theorem finish_fresh2 (decls : Decls) (n : Str) (id : Nat) (s : PSt) (hn : n ≠ []) (hnone : dGet n s.reg = none)
    (hc : s.tr.cycles = []) (hname : (s.get id).name = some n)
    (hsp : ∀ t, (s.get id).type = some t → primTypes.contains t = true → (s.get id).hasEnum = false →
      dHas n decls = true) :
    finish decls (some n) id s = (id, s.regSet n id) := by
  have ht := truthy_of_ne n hn
  have hkey : regKey s (s.get id) n id = n := by
    unfold regKey
    simp [hname, ht, hnone]
  unfold finish
  simp only [ht, Bool.not_true, Bool.false_eq_true, if_false, hnone]
  unfold finish.finishReg
  have hc' : (s.regSet n id).tr.cycles = [] := hc
  simp only [hkey]
  cases hty : (s.get id).type with
  | none => simp [hc', cycleMark]
  | some t =>
    by_cases hmem : t ∈ primTypes
    · cases he : (s.get id).hasEnum with
      | true => simp [hc', cycleMark]
      | false =>
        have hd := hsp t hty (List.contains_iff_mem.mpr hmem) he
        simp [hd, hc', cycleMark]
    · simp [hmem, hc', cycleMark]

theorem afterEnter_facts (s : PSt) (n : Str) :
    (afterEnter s n).tr.stack = s.tr.stack ++ [n] ∧ (afterEnter s n).tr.depth = s.tr.depth + 1 ∧
    (afterEnter s n).tr.maxDepth = s.tr.maxDepth ∧ (afterEnter s n).tr.cycles = s.tr.cycles ∧
    (afterEnter s n).tr.states = dSet n .inProgress s.tr.states ∧ (afterEnter s n).heap = s.heap ∧
    (afterEnter s n).reg = s.reg ∧ (afterEnter s n).oom = s.oom :=
  ⟨rfl, rfl, rfl, rfl, rfl, rfl, rfl, rfl⟩

/-- registration and exit: the end of a named call that went through the body; `sa` is the state in which
    the model (and possibly further objects after it) has been allocated on top of `se` -/
theorem named_close (decls : Decls) (n : Str) (s se sa : PSt) (model : IR) (extra : List IR) (hn : n ≠ [])
    (hstate : dGet n s.tr.states = none) (hnstack : n ∉ s.tr.stack) (hnreg : s.regHas n = false)
    (hcyc : s.tr.cycles = []) (hl1 : Step (afterEnter s n) se)
    (hah : sa.heap = se.heap ++ model :: extra) (har : sa.reg = se.reg) (hao : sa.oom = se.oom)
    (hat : TrSame se.tr sa.tr) (hname : model.name = some n)
    (hsp : ∀ t, model.type = some t → primTypes.contains t = true → model.hasEnum = false →
      dHas n decls = true) :
    ∃ sf, ((finish decls (some n) se.heap.length sa).1,
           ({ ((finish decls (some n) se.heap.length sa).2.doExit (some n)) with
              nest := ((finish decls (some n) se.heap.length sa).2.doExit (some n)).nest - 1 } : PSt))
          = (se.heap.length, sf) ∧
      Step s sf ∧ HStep se sf ∧ sf.heap = se.heap ++ model :: extra ∧ sf.reg = dSet n se.heap.length se.reg ∧
      dGet n se.reg = none ∧ sf.tr.states = dSet n .completed se.tr.states ∧ sf.get se.heap.length = model := by
  obtain ⟨h1stack, h1depth, h1max, h1cyc, h1states, h1heap, h1reg, h1oom⟩ := afterEnter_facts s n
  have h1regHas : ∀ k, (afterEnter s n).regHas k = s.regHas k := by intro k; unfold PSt.regHas; rw [h1reg]
  have hsen : dGet n se.tr.states = some .inProgress := by
    rcases hl1.states n with e | ⟨e, _, _⟩
    · rw [e, h1states]; exact dGet_dSet_self _ _ _
    · rw [h1states, dGet_dSet_self] at e; cases e
  have hnone : dGet n se.reg = none := by
    cases hg : dGet n se.reg with
    | none => rfl
    | some i =>
      have hr' : se.regHas n = true := (regHas_iff_dGet se n).mpr ⟨i, hg⟩
      rcases hl1.regNew n hr' with e | ⟨e, _⟩
      · rw [h1regHas, hnreg] at e; cases e
      · rw [h1states, dGet_dSet_self] at e; cases e
  have hgeta : sa.get se.heap.length = model := by
    have := get_ext _ hah 0
    simpa using this
  have hfin : finish decls (some n) se.heap.length sa = (se.heap.length, sa.regSet n se.heap.length) := by
    refine finish_fresh2 decls n _ _ hn (by rw [har]; exact hnone) ?_ ?_ ?_
    · rw [hat.2.2.2.1, hl1.cycles, h1cyc]; exact hcyc
    · rw [hgeta]; exact hname
    · rw [hgeta]; exact hsp
  rw [hfin]
  simp only []
  generalize hsf : ({ (sa.regSet n se.heap.length).doExit (some n) with
      nest := ((sa.regSet n se.heap.length).doExit (some n)).nest - 1 } : PSt) = sf
  have hftr : sf.tr = Trk.exit sa.tr (some n) := by rw [← hsf]; rfl
  have hfheap : sf.heap = se.heap ++ model :: extra := by rw [← hsf]; exact hah
  have hfreg : sf.reg = dSet n se.heap.length se.reg := by rw [← hsf, ← har]; rfl
  have hfoom : sf.oom = se.oom := by rw [← hsf, ← hao]; rfl
  have hsan' : dGet n sa.tr.states = some .inProgress := by rw [hat.2.2.2.2]; exact hsen
  rw [exit_inProgress sa.tr n hn hsan'] at hftr
  have hfstack : sf.tr.stack = se.tr.stack.erase n := by rw [hftr]; show sa.tr.stack.erase n = _; rw [hat.1]
  have hfdepth : sf.tr.depth = se.tr.depth - 1 := by rw [hftr]; show sa.tr.depth - 1 = _; rw [hat.2.1]
  have hfmax : sf.tr.maxDepth = se.tr.maxDepth := by rw [hftr]; show sa.tr.maxDepth = _; rw [hat.2.2.1]
  have hfcyc : sf.tr.cycles = se.tr.cycles := by rw [hftr]; show sa.tr.cycles = _; rw [hat.2.2.2.1]
  have hfstates : sf.tr.states = dSet n .completed se.tr.states := by
    rw [hftr]; show dSet n .completed sa.tr.states = _; rw [hat.2.2.2.2]
  have hfget_old : ∀ i, i < se.heap.length → sf.get i = se.get i := by
    intro i hi
    unfold PSt.get
    rw [hfheap]
    exact getD_append_left _ _ i hi
  have hfget_new : sf.get se.heap.length = model := by
    have := get_ext (s := se) (s' := sf) _ hfheap 0
    simpa using this
  have hfreg_ne : ∀ k, k ≠ n → dGet k sf.reg = dGet k se.reg := by
    intro k hk'
    rw [hfreg, dGet_dSet_ne _ _ _ _ hk']
  have hfreg_n : dGet n sf.reg = some se.heap.length := by rw [hfreg, dGet_dSet_self]
  have hhs : HStep se sf := by
    refine ⟨?_, by rw [hfheap]; simp, hfget_old, ?_⟩
    · intro k i h
      have : k ≠ n := fun e => by subst e; rw [hnone] at h; cases h
      rw [hfreg_ne k this]; exact h
    · intro k i h
      by_cases e : k = n
      · subst e
        rw [hfreg_n] at h
        cases h
        exact Or.inr (Nat.le_refl _)
      · rw [hfreg_ne k e] at h
        exact Or.inl h
  refine ⟨sf, rfl, ?_, hhs, hfheap, hfreg, hnone, hfstates, hfget_new⟩
  refine ⟨?_, ?_, ?_, ?_, ?_, ?_, ?_, ?_, ?_, ?_, ?_⟩
  · rw [hfstack, hl1.stack, h1stack, erase_append_self_of_not_mem _ _ hnstack]
  · rw [hfdepth, hl1.depth, h1depth]; omega
  · rw [hfmax, hl1.maxDepth, h1max]
  · rw [hfcyc, hl1.cycles, h1cyc]
  · intro m
    rw [hfstates]
    by_cases hmn : m = n
    · subst hmn
      exact Or.inr ⟨hstate, dGet_dSet_self _ _ _, (regHas_iff_dGet sf m).mpr ⟨_, hfreg_n⟩⟩
    · rw [dGet_dSet_ne _ _ _ _ hmn]
      rcases hl1.states m with e | ⟨e, e', er⟩
      · rw [h1states, dGet_dSet_ne _ _ _ _ hmn] at e
        exact Or.inl e
      · rw [h1states, dGet_dSet_ne _ _ _ _ hmn] at e
        refine Or.inr ⟨e, e', ?_⟩
        obtain ⟨i, hi⟩ := (regHas_iff_dGet se m).mp er
        exact (regHas_iff_dGet sf m).mpr ⟨i, hhs.reg m i hi⟩
  · intro k i h
    rw [← h1reg] at h
    exact hhs.reg k i (hl1.reg k i h)
  · rw [← h1heap]
    exact Nat.le_trans hl1.heapLen hhs.heapLen
  · intro i hi
    rw [← h1heap] at hi
    rw [hhs.heap i (Nat.lt_of_lt_of_le hi hl1.heapLen), hl1.heap i hi]
    unfold PSt.get; rw [h1heap]
  · intro k i h
    rcases hhs.fresh k i h with e | e
    · rcases hl1.fresh k i e with e1 | e1
      · exact Or.inl (by rw [← h1reg]; exact e1)
      · exact Or.inr (by rw [← h1heap]; exact e1)
    · exact Or.inr (by rw [← h1heap]; exact Nat.le_trans hl1.heapLen e)
  · intro k hk'
    by_cases hkn : k = n
    · subst hkn
      right
      refine ⟨hstate, ?_⟩
      rw [hfstates]
      exact dGet_dSet_self _ _ _
    · have hke : se.regHas k = true := by
        obtain ⟨i, hi⟩ := (regHas_iff_dGet sf k).mp hk'
        rw [hfreg_ne k hkn] at hi
        exact (regHas_iff_dGet se k).mpr ⟨i, hi⟩
      rcases hl1.regNew k hke with e | ⟨e, e'⟩
      · exact Or.inl (by rw [← h1regHas]; exact e)
      · right
        rw [h1states, dGet_dSet_ne _ _ _ _ hkn] at e
        refine ⟨e, ?_⟩
        rw [hfstates, dGet_dSet_ne _ _ _ _ hkn]
        exact e'
  · rw [hfoom, hl1.oom, h1oom]


theorem WF2.close {decls : Decls} {se sf : PSt} {n : Str} {model : IR} (hw : WF2 decls se) (hhs : HStep se sf)
    {extra : List IR} (hreg : sf.reg = dSet n se.heap.length se.reg) (hheap : sf.heap = se.heap ++ model :: extra)
    (hm : n ∈ decls.map (·.1) → ModelOK2 decls sf n se.heap.length) : WF2 decls sf := by
  have hfreg_ne : ∀ k, k ≠ n → dGet k sf.reg = dGet k se.reg := by
    intro k hk'
    rw [hreg, dGet_dSet_ne _ _ _ _ hk']
  have hfreg_n : dGet n sf.reg = some se.heap.length := by rw [hreg, dGet_dSet_self]
  refine ⟨?_, ?_⟩
  · intro m i hmi
    by_cases hmn : m = n
    · subst hmn
      rw [hfreg_n] at hmi
      cases hmi
      exact ⟨by rw [hheap]; simp, hm⟩
    · rw [hfreg_ne m hmn] at hmi
      obtain ⟨h1, h2⟩ := hw.1 m i hmi
      exact ⟨Nat.lt_of_lt_of_le h1 hhs.heapLen, fun hmem => ModelOK2.step hhs.toW m i h1 (h2 hmem)⟩
  · intro m m' i h1 h2
    by_cases hmn : m = n
    · by_cases hmn' : m' = n
      · rw [hmn, hmn']
      · subst hmn
        rw [hfreg_n] at h1
        cases h1
        rw [hfreg_ne m' hmn'] at h2
        exact absurd (hw.1 m' _ h2).1 (Nat.lt_irrefl _)
    · by_cases hmn' : m' = n
      · subst hmn'
        rw [hfreg_n] at h2
        cases h2
        rw [hfreg_ne m hmn] at h1
        exact absurd (hw.1 m _ h1).1 (Nat.lt_irrefl _)
      · rw [hfreg_ne m hmn] at h1
        rw [hfreg_ne m' hmn'] at h2
        exact hw.2 m m' i h1 h2

theorem own_close {decls : Decls} {ex ex' : List Str} {n : Str} {s se sf : PSt}
    (hsf : sf.tr.states = dSet n .completed se.tr.states) (ho : Own decls ex (afterEnter s n) se)
    (hex : ∀ d ∈ decls, ∀ k ∈ mapKeys d.2, mapCtx d.1 k ∉ ex' →
      mapCtx d.1 k ≠ n ∧ (mapCtx d.1 k ∈ ex → dGet d.1 s.tr.states = none ∧ d.1 = n)) :
    Own decls ex' s sf := by
  intro d hd k hk hnot hne
  obtain ⟨hcn, hin⟩ := hex d hd k hk hnot
  have h1states : (afterEnter s n).tr.states = dSet n .inProgress s.tr.states := rfl
  rw [hsf, dGet_dSet_ne _ _ _ _ hcn] at hne
  by_cases hc : mapCtx d.1 k ∈ ex
  · obtain ⟨x1, x2⟩ := hin hc
    refine ⟨x1, ?_⟩
    rw [hsf, x2, dGet_dSet_self]
  · have hne' : dGet (mapCtx d.1 k) se.tr.states ≠ dGet (mapCtx d.1 k) (afterEnter s n).tr.states := by
      rw [h1states, dGet_dSet_ne _ _ _ _ hcn]; exact hne
    obtain ⟨x1, x2⟩ := ho d hd k hk hc hne'
    have hdn : d.1 ≠ n := by
      intro e
      rw [h1states, e, dGet_dSet_self] at x1
      cases x1
    rw [h1states, dGet_dSet_ne _ _ _ _ hdn] at x1
    refine ⟨x1, ?_⟩
    rw [hsf, dGet_dSet_ne _ _ _ _ hdn]
    exact x2

theorem TK2.afterEnter {decls : Decls} {rank : Str → Nat} {s : PSt} {R R' : Nat} {n : Str}
    (hk : TK2 decls rank s R) (hstate : dGet n s.tr.states = none) (hR : R' ≤ R)
    (hrank : n ∈ decls.map (·.1) → R' ≤ rank n)
    (hown : ∀ d ∈ decls, ∀ k ∈ mapKeys d.2, mapCtx d.1 k = n → dGet d.1 s.tr.states ≠ none) :
    TK2 decls rank (Prs.afterEnter s n) R' := by
  obtain ⟨h1stack, _, _, h1cyc, h1states, _, h1reg, _⟩ := afterEnter_facts s n
  have h1regHas : ∀ k, (Prs.afterEnter s n).regHas k = s.regHas k := by intro k; unfold PSt.regHas; rw [h1reg]
  have hnstack : n ∉ s.tr.stack := by
    intro hm
    have := hk.2.1 n hm
    rw [hstate] at this
    cases this
  have hnreg : s.regHas n = false := by
    rcases hk.2.2.1 n with ⟨_, b⟩ | ⟨a, _⟩ | ⟨a, _⟩
    · exact b
    · rw [hstate] at a; cases a
    · rw [hstate] at a; cases a
  refine ⟨by rw [h1cyc]; exact hk.1, ?_, ?_, ?_⟩
  · intro m hm
    rw [h1stack] at hm
    rw [h1states]
    rcases List.mem_append.mp hm with h | h
    · have hne : m ≠ n := fun e => hnstack (e ▸ h)
      rw [dGet_dSet_ne _ _ _ _ hne]
      exact hk.2.1 m h
    · simp at h; subst h; exact dGet_dSet_self _ _ _
  · intro m
    rw [h1states, h1regHas]
    by_cases hmn : m = n
    · subst hmn
      exact Or.inr (Or.inr ⟨dGet_dSet_self _ _ _, hrank, hnreg⟩)
    · rw [dGet_dSet_ne _ _ _ _ hmn]
      rcases hk.2.2.1 m with a | a | ⟨a, b, c⟩
      · exact Or.inl a
      · exact Or.inr (Or.inl a)
      · exact Or.inr (Or.inr ⟨a, fun hm => Nat.le_trans hR (b hm), c⟩)
  · intro d hd k hkk hne
    rw [h1states] at hne ⊢
    have hfinal : dGet d.1 s.tr.states ≠ none → dGet d.1 (dSet n SchemaState.inProgress s.tr.states) ≠ none := by
      intro h
      by_cases e : d.1 = n
      · rw [e, dGet_dSet_self]; exact fun x => by cases x
      · rw [dGet_dSet_ne _ _ _ _ e]; exact h
    by_cases e : mapCtx d.1 k = n
    · exact hfinal (hown d hd k hkk e)
    · rw [dGet_dSet_ne _ _ _ _ e] at hne
      exact hfinal (hk.2.2.2 d hd k hkk hne)

theorem enter_fresh2 {decls : Decls} {rank : Str → Nat} {s : PSt} {R : Nat} {n : Str} (hk : TK2 decls rank s R)
    (hn : n ≠ []) (hstate : dGet n s.tr.states = none) (hd : s.tr.depth + 1 ≤ s.tr.maxDepth) :
    Trk.enter s.tr (some n) true = (enteredTr s.tr n, { action := .continueParsing }) := by
  have hnstack : n ∉ s.tr.stack := by
    intro hm
    have := hk.2.1 n hm
    rw [hstate] at this
    cases this
  exact enter_fresh s.tr n true hn hstate hnstack hd


/-! ### a map node -/

/-- the value node of a map (only its effect on the state matters) -/
theorem leaf_step (decls : Decls) (rank : Str → Nat) (P : PFn) (r : Nat) (hPrim : PrimSpec P)
    (hRef : RefSpec decls rank P r) (a : Node) (s : PSt) (R : Nat)
    (ha : simpleProp (decls.map (·.1)) a = true) (hr : leafCost rank a < r + 1) (hR : leafCost rank a ≤ R)
    (hd : s.tr.depth + leafCost rank a ≤ s.tr.maxDepth) (hw : WF2 decls s) (hk : TK2 decls rank s R) :
    Step s (P none a true s).2 ∧ Own decls [] s (P none a true s).2 ∧ WF2 decls (P none a true s).2 ∧
    s.heap.length ≤ (P none a true s).2.heap.length := by
  rcases simpleProp_cases _ a ha with ⟨ty, e⟩ | ⟨t, e, hmem, hno, hne⟩
  · subst e
    obtain ⟨_, a2, a3, a4, a5⟩ := hPrim ty s
    have hst := step_of_ext _ a2 a3 a4 a5
    exact ⟨hst, Own.of_states_eq a5.2.2.2.2, WF2.step (hstep_of_ext _ a2 a3).toW a3 hw, hst.heapLen⟩
  · subst e
    obtain ⟨nd, hnd⟩ := dGet_of_mem_keys decls t hmem
    have h1 : rank t + 2 < r + 1 := hr
    have h2 : rank t + 2 ≤ R := hR
    have h3 : s.tr.depth + (rank t + 2) ≤ s.tr.maxDepth := hd
    obtain ⟨b1, b2, b3, _⟩ := hRef t nd s R hnd hno hne (by omega) (by omega) (by omega) hw hk
    exact ⟨b1, b2, b3, b1.heapLen⟩

theorem body_map_eq (decls : Decls) (P : PFn) (c : Str) (a : Node) (req : List Str) (s : PSt) (hc : c ≠ [])
    (hsan : sanClass c = c) :
    body decls P (some c) (.obj none req (some a)) true s =
      finish decls (some c)
        ((P none a true s).2.alloc { name := some c, type := some sObject, required := dedup req,
                                      addl := some (P none a true s).1 }).1
        ((P none a true s).2.alloc { name := some c, type := some sObject, required := dedup req,
                                      addl := some (P none a true s).1 }).2 := by
  have hmk : ∀ i, mkIR { name := some c, type := some sObject, props := [], required := dedup req, addl := some i } =
      { name := some c, type := some sObject, props := [], required := dedup req, addl := some i } :=
    fun i => mkIR_named c hc hsan _ rfl
  simp [body, Node.core, truthy_of_ne c hc, hsan, hmk]

theorem parseStep_mapSpec (decls : Decls) (rank : Str → Nat) (P : PFn) (r : Nat)
    (hPrim : PrimSpec P) (hRef : RefSpec decls rank P r) :
    MapSpec decls rank (parseStep decls P) (r + 1) := by
  intro c a req s R hcn hsan hc ha hr hR hd hw hk hstate hown
  have he := enter_fresh2 hk hc hstate (by omega)
  have hps := parseStep_named_eq decls P c (.obj none req (some a)) s he
  rw [body_map_eq decls P c a req _ hc hsan] at hps
  obtain ⟨h1stack, h1depth, h1max, h1cyc, h1states, h1heap, h1reg, h1oom⟩ := afterEnter_facts s c
  have hk1 : TK2 decls rank (afterEnter s c) R :=
    TK2.afterEnter hk hstate (Nat.le_refl _) (fun h => absurd h hcn) hown
  have hw1 : WF2 decls (afterEnter s c) := WF2.congr h1heap h1reg hw
  obtain ⟨l1, l2, l3, _⟩ := leaf_step decls rank P r hPrim hRef a (afterEnter s c) R ha hr hR
    (by rw [h1depth, h1max]; omega) hw1 hk1
  have hnstack : c ∉ s.tr.stack := by
    intro hm
    have := hk.2.1 c hm
    rw [hstate] at this
    cases this
  have hnreg : s.regHas c = false := by
    rcases hk.2.2.1 c with ⟨_, b⟩ | ⟨x, _⟩ | ⟨x, _⟩
    · exact b
    · rw [hstate] at x; cases x
    · rw [hstate] at x; cases x
  generalize hq : P none a true (afterEnter s c) = q at l1 l2 l3 hps
  obtain ⟨ai, se⟩ := q
  simp only at l1 l2 l3 hps
  obtain ⟨sf, heq, hst, hhs, hfheap, hfreg, hnone, hfstates, hfget⟩ :=
    named_close decls c s se (se.alloc { name := some c, type := some sObject, required := dedup req, addl := some ai }).2
      { name := some c, type := some sObject, required := dedup req, addl := some ai }
      [] hc hstate hnstack hnreg hk.1 l1 rfl rfl rfl (TrSame.rfl' _) rfl (by
        intro t ht hpt _
        cases ht
        exact absurd hpt (by decide))
  have hps' : parseStep decls P (some c) (Node.obj none req (some a)) true s = (se.heap.length, sf) := by
    rw [hps]; exact heq
  rw [hps']
  refine ⟨hst, ?_, ?_, by rw [hfreg, dGet_dSet_self], by rw [hfheap]; simp, _, hfget⟩
  · refine own_close hfstates l2 ?_
    intro d hd' k hk' hnot
    exact ⟨fun e => hnot (by rw [e]; exact List.mem_singleton.mpr rfl), fun hin => by cases hin⟩
  · exact WF2.close l3 hhs hfreg hfheap (fun h => absurd h hcn)


/-! ### one property -/

theorem rename_post {decls : Decls} {s : PSt} {q : Nat × PSt} {K : Kind} (h : AnonPost decls s q K)
    (f : IR → IR) (hf : ∀ o, (f o).shape = o.shape) :
    Step s (q.2.modify q.1 f) ∧ Own decls [] s (q.2.modify q.1 f) ∧ WF2 decls (q.2.modify q.1 f) ∧
    Denotes (decls.map (·.1)) (q.2.modify q.1 f) K q.1 := by
  obtain ⟨h1, h2, h3, h4, h5⟩ := h
  have hw := rename_hstepW q.2 q.1 f hf
  exact ⟨h1.modify_fresh q.1 f h5, h2, WF2.step hw rfl h3, Denotes.step hw K q.1 h4⟩

theorem propStep_prim_eq (decls : Decls) (P : PFn) (n k : Str) (ty : PrimTy) (s : PSt) :
    propStep decls P (some n) true k (.prim ty false) s =
      ((P none (.prim ty false) true s).1,
       (P none (.prim ty false) true s).2.modify (P none (.prim ty false) true s).1
         (fun o => { o with name := some k, hasEnum := o.hasEnum || false })) := by
  simp [propStep, Node.isRef, Node.isInlineObj, Node.core, propOther, propCtxName, Node.isPlainPrim,
    Node.enumFlag]

theorem propStep_arr_eq (decls : Decls) (P : PFn) (n k : Str) (i : Node) (s : PSt)
    (hi : simpleProp (decls.map (·.1)) i = true) :
    propStep decls P (some n) true k (.arr i) s =
      ((P none (.arr i) true s).1,
       (P none (.arr i) true s).2.modify (P none (.arr i) true s).1
         (fun o => { o with name := some k, hasEnum := o.hasEnum || false })) := by
  rcases simpleProp_cases _ i hi with ⟨ty, e⟩ | ⟨t, e, _⟩
  · subst e
    simp [propStep, Node.isRef, Node.isInlineObj, Node.core, propOther, propCtxName, Node.isPlainPrim,
      Node.isSimpleArr, Node.isPrim, Node.enumFlag]
  · subst e
    simp [propStep, Node.isRef, Node.isInlineObj, Node.core, propOther, propCtxName, Node.isPlainPrim,
      Node.isSimpleArr, Node.isPrim, Node.enumFlag]

theorem rename_shape (k : Str) (o : IR) :
    ({ o with name := some k, hasEnum := o.hasEnum || false } : IR).shape = o.shape := rfl

theorem primSpec_anonPost (decls : Decls) (P : PFn) (hPrim : PrimSpec P) (ty : PrimTy) (s : PSt)
    (hw : WF2 decls s) : AnonPost decls s (P none (.prim ty false) true s) (.prim ty) := by
  obtain ⟨a1, a2, a3, a4, a5⟩ := hPrim ty s
  have hst := step_of_ext _ a2 a3 a4 a5
  have hg : (P none (.prim ty false) true s).2.get s.heap.length = { type := some ty.str } := by
    have := get_ext _ a2 0
    simpa using this
  refine ⟨hst, Own.of_states_eq a5.2.2.2.2, WF2.step (hstep_of_ext _ a2 a3).toW a3 hw, ?_, by rw [a1]; exact Nat.le_refl _⟩
  rw [a1]
  refine ⟨⟨by rw [a2]; simp, by rw [hg]; rfl, ?_⟩, by rw [hg], by rw [hg]⟩
  intro k i hki
  rw [a3] at hki
  exact Nat.ne_of_lt (wf2_reg_lt hw k i hki)

/-- what every property step delivers; `ex` = the context name the step itself used, if any -/
def PropPost (decls : Decls) (ex : List Str) (s : PSt) (k : Str) (p : Node) (q : Nat × PSt) : Prop :=
  Step s q.2 ∧ Own decls ex s q.2 ∧ WF2 decls q.2 ∧ FieldOK2 (decls.map (·.1)) q.2 (k, p) (k, q.1)

theorem propStep_prim2 (decls : Decls) (P : PFn) (hPrim : PrimSpec P) (n k : Str) (ty : PrimTy) (s : PSt)
    (hw : WF2 decls s) : PropPost decls [] s k (.prim ty false) (propStep decls P (some n) true k (.prim ty false) s) := by
  rw [propStep_prim_eq]
  obtain ⟨h1, h2, h3, h4⟩ := rename_post (primSpec_anonPost decls P hPrim ty s hw) _ (rename_shape k)
  exact ⟨h1, h2, h3, rfl, h4⟩

theorem propStep_arr2 (decls : Decls) (rank : Str → Nat) (P : PFn) (r : Nat) (hArr : ArrSpec decls rank P r)
    (n k : Str) (i : Node) (s : PSt) (R : Nat) (hi : simpleProp (decls.map (·.1)) i = true)
    (hr : leafCost rank i < r) (hR : leafCost rank i ≤ R) (hd : s.tr.depth + leafCost rank i + 1 ≤ s.tr.maxDepth)
    (hw : WF2 decls s) (hk : TK2 decls rank s R) :
    PropPost decls [] s k (.arr i) (propStep decls P (some n) true k (.arr i) s) := by
  rw [propStep_arr_eq decls P n k i s hi]
  obtain ⟨h1, h2, h3, h4⟩ := rename_post (hArr i s R hi hr hR hd hw hk) _ (rename_shape k)
  exact ⟨h1, h2, h3, rfl, h4⟩

theorem propStep_ref2 (decls : Decls) (rank : Str → Nat) (hS : Simple2 decls rank) (P : PFn) (r : Nat)
    (hP : SpecP2 decls rank P r) (n k t : Str) (s : PSt) (hw : WF2 decls s) (hk : TK2 decls rank s (rank t + 1))
    (hmem : t ∈ decls.map (·.1)) (hno : t.contains '/' = false) (hne : t ≠ []) (hr : rank t < r)
    (hd : s.tr.depth + rank t + 1 ≤ s.tr.maxDepth) :
    PropPost decls [] s k (.ref t) (propStep decls P (some n) true k (.ref t) s) := by
  have hq : propStep decls P (some n) true k (.ref t) s = resolveRef decls P t true s := by
    simp [propStep, Node.isRef, Node.core]
  rw [hq]
  obtain ⟨nd, hnd⟩ := dGet_of_mem_keys decls t hmem
  obtain ⟨h1, h2, h3, h4⟩ := resolveRef_spec2 decls rank P r hP t nd s hw hk hnd hno hne hr hd
  refine ⟨h1, h2, h3, rfl, ?_⟩
  show Denotes _ _ (.ref (sanClass (lastSeg t))) _
  rw [lastSeg_of_no_slash t hno, sanClass_of_declared2 decls rank hS t hmem]
  exact ⟨hmem, h4⟩

theorem propOther_map_eq (P : PFn) (n k : Str) (a : Node) (req : List Str) (s : PSt) (hn : n ≠ [])
    (mid ai : Nat) (sm : PSt)
    (hq : P (some (mapCtx n k)) (.obj none req (some a)) true s = (mid, sm))
    (hreg : dGet (mapCtx n k) sm.reg = some mid)
    (hget : sm.get mid = { name := some (mapCtx n k), type := some sObject, required := dedup req, addl := some ai }) :
    propOther P (some n) true k (.obj none req (some a)) s =
      sm.alloc { type := some (mapCtx n k), refersTo := some mid } := by
  have hctx : propCtxName (some n) k (.obj none req (some a)) = some (mapCtx n k) := by
    simp [propCtxName, truthy_of_ne n hn, Node.isPlainPrim, Node.isSimpleArr, Node.core, mapCtx]
  have hne : ¬ (sObject = sArray) := by decide
  unfold propOther
  simp only [hctx, hq]
  simp [hget, PSt.regHas, dHas, hreg, Node.isPlainPrim, Node.isSimpleArr, Node.core, Node.enumFlag, mkIR, truthy, hne]

theorem propStep_map2 (decls : Decls) (rank : Str → Nat) (P : PFn) (r : Nat) (hMap : MapSpec decls rank P r)
    (n k : Str) (a : Node) (req : List Str) (s : PSt) (R : Nat) (hn : n ≠ [])
    (hcn : mapCtx n k ∉ decls.map (·.1)) (hsan : sanClass (mapCtx n k) = mapCtx n k)
    (ha : simpleProp (decls.map (·.1)) a = true)
    (hr : leafCost rank a < r) (hR : leafCost rank a ≤ R) (hd : s.tr.depth + leafCost rank a + 1 ≤ s.tr.maxDepth)
    (hw : WF2 decls s) (hk : TK2 decls rank s R) (hstate : dGet (mapCtx n k) s.tr.states = none)
    (hown : ∀ d ∈ decls, ∀ k' ∈ mapKeys d.2, mapCtx d.1 k' = mapCtx n k → dGet d.1 s.tr.states ≠ none) :
    PropPost decls [mapCtx n k] s k (.obj none req (some a))
      (propStep decls P (some n) true k (.obj none req (some a)) s) := by
  have hq : propStep decls P (some n) true k (.obj none req (some a)) s =
      propOther P (some n) true k (.obj none req (some a)) s := by
    simp [propStep, Node.isRef, Node.isInlineObj, Node.core]
  rw [hq]
  obtain ⟨m1, m2, m3, m4, m5, ai, m6⟩ := hMap (mapCtx n k) a req s R hcn hsan (mapCtx_ne_nil n k) ha hr hR hd hw hk
    hstate hown
  generalize hqq : P (some (mapCtx n k)) (.obj none req (some a)) true s = q at m1 m2 m3 m4 m5 m6
  obtain ⟨mid, sm⟩ := q
  simp only at m1 m2 m3 m4 m5 m6
  rw [propOther_map_eq P n k a req s hn mid ai sm hqq m4 m6]
  have hh : (sm.alloc { type := some (mapCtx n k), refersTo := some mid }).2.heap =
      sm.heap ++ [{ type := some (mapCtx n k), refersTo := some mid }] := rfl
  have hr' : (sm.alloc { type := some (mapCtx n k), refersTo := some mid }).2.reg = sm.reg := rfl
  have hst : Step sm (sm.alloc { type := some (mapCtx n k), refersTo := some mid }).2 :=
    step_of_ext _ hh hr' rfl (TrSame.rfl' _)
  have hhs := (hstep_of_ext _ hh hr').toW
  refine ⟨Step.trans m1 hst, ?_, WF2.step hhs hr' m3, rfl, ?_⟩
  · exact Own.trans m1 hst m2 (Own.of_states_eq rfl)
  · show Denotes _ _ .obj sm.heap.length
    have hg : (sm.alloc { type := some (mapCtx n k), refersTo := some mid }).2.get sm.heap.length =
        { type := some (mapCtx n k), refersTo := some mid } := get_alloc _ _
    have hgm : (sm.alloc { type := some (mapCtx n k), refersTo := some mid }).2.get mid = sm.get mid := by
      unfold PSt.get
      rw [hh]
      exact getD_append_left _ _ _ m5
    refine ⟨⟨by rw [hh]; simp, by rw [hg]; rfl, ?_⟩, mapCtx n k, mid, by rw [hg], hcn, m4,
      by rw [hh]; simp; omega, by rw [hgm, m6]; rfl, by rw [hgm, m6], by rw [hgm, m6]⟩
    intro k' i hki
    exact Nat.ne_of_lt (wf2_reg_lt m3 k' i hki)


/-! ### the property loop -/

theorem simpleProp2_cases (names : List Str) (p : Node) (h : simpleProp2 names p = true) :
    (∃ ty, p = .prim ty false) ∨
    (∃ t, p = .ref t ∧ t ∈ names ∧ t.contains '/' = false ∧ t ≠ []) ∨
    (∃ i, p = .arr i ∧ simpleProp names i = true) ∨
    (∃ req a, p = .obj none req (some a) ∧ simpleProp names a = true) := by
  cases p with
  | prim ty e =>
    have h' : simpleProp names (.prim ty e) = true := h
    rcases simpleProp_cases names _ h' with ⟨ty', e'⟩ | ⟨t, e', _⟩
    · exact Or.inl ⟨ty', e'⟩
    · cases e'
  | ref t =>
    have h' : simpleProp names (.ref t) = true := h
    rcases simpleProp_cases names _ h' with ⟨ty', e'⟩ | ⟨t', e', h1, h2, h3⟩
    · cases e'
    · cases e'
      exact Or.inr (Or.inl ⟨t, rfl, h1, h2, h3⟩)
  | arr i => exact Or.inr (Or.inr (Or.inl ⟨i, rfl, h⟩))
  | obj props req ap =>
    cases props with
    | some ps => simp [simpleProp2] at h
    | none =>
      cases ap with
      | none => simp [simpleProp2] at h
      | some a => exact Or.inr (Or.inr (Or.inr ⟨req, a, rfl, h⟩))
  | allOf _ _ _ => simp [simpleProp2] at h
  | oneOf _ => simp [simpleProp2] at h
  | anyOf _ => simp [simpleProp2] at h
  | nullable _ => simp [simpleProp2] at h

theorem All2.keys2 {names : List Str} {s : PSt} {done : List (Str × Node)} {acc : List (Str × Nat)}
    (h : All2 (FieldOK2 names s) done acc) : acc.map (·.1) = done.map (·.1) := by
  induction h with
  | nil => rfl
  | cons hab _ ih => simp [hab.1, ih]

/-- the context names of the map properties of `n` -/
def ctxsOf (n : Str) (nd : Node) : List Str := (mapKeys nd).map (mapCtx n)

theorem parseProps_spec2 (decls : Decls) (rank : Str → Nat) (hS : Simple2 decls rank) (P : PFn) (r : Nat)
    (hP : Spec2 decls rank P r) (n : Str) (nd : Node) (hmemd : (n, nd) ∈ decls) (hRr : rank n ≤ r) :
    ∀ (rest done : List (Str × Node)) (acc : List (Str × Nat)) (s0 sc : PSt),
      (∀ kv ∈ rest, kv.1 ≠ [] ∧ simpleProp2 (decls.map (·.1)) kv.2 = true ∧ propCost rank kv.2 ≤ rank n ∧
          (isMapNode kv.2 = true → kv.1 ∈ mapKeys nd)) →
      ((done ++ rest).map (·.1)).Nodup →
      Step s0 sc → Own decls (ctxsOf n nd) s0 sc → WF2 decls sc → TK2 decls rank sc (rank n) →
      dGet n sc.tr.states = some .inProgress → s0.tr.depth + rank n ≤ s0.tr.maxDepth →
      (∀ kv ∈ rest, isMapNode kv.2 = true → dGet (mapCtx n kv.1) sc.tr.states = none) →
      All2 (FieldOK2 (decls.map (·.1)) sc) done acc →
      Step s0 (parseProps decls P (some n) true rest acc sc).2 ∧
      Own decls (ctxsOf n nd) s0 (parseProps decls P (some n) true rest acc sc).2 ∧
      WF2 decls (parseProps decls P (some n) true rest acc sc).2 ∧
      All2 (FieldOK2 (decls.map (·.1)) (parseProps decls P (some n) true rest acc sc).2) (done ++ rest)
        (parseProps decls P (some n) true rest acc sc).1 := by
  intro rest
  induction rest with
  | nil =>
    intro done acc s0 sc _ _ hst hown hw _ _ _ _ hall
    simp only [parseProps, List.append_nil]
    exact ⟨hst, hown, hw, hall⟩
  | cons kv rest ih =>
    intro done acc s0 sc hrest hnd hst hown hw hk hsn hdep hfree hall
    obtain ⟨k, p⟩ := kv
    obtain ⟨hkne, hsimple, hcost, hmk⟩ := hrest (k, p) (List.mem_cons_self ..)
    obtain ⟨hn, hsan⟩ := hS.name (n, nd) hmemd
    have hn : n ≠ [] := hn
    have hkemp : k.isEmpty = false := by
      cases k with
      | nil => exact absurd rfl hkne
      | cons c cs => rfl
    have hnotin : dHas k acc = false := by
      rw [dHas_iff_contains, hall.keys2]
      cases hc : (done.map (·.1)).contains k with
      | false => rfl
      | true =>
        have hmem : k ∈ done.map (·.1) := List.contains_iff_mem.mp hc
        simp only [List.map_append, List.map_cons] at hnd
        have := (List.nodup_append.mp hnd).2.2 k hmem k (List.mem_cons_self ..)
        exact absurd rfl this
    simp only [parseProps, hkemp, hnotin, Bool.or_self, Bool.false_eq_true, if_false]
    have hdepc : sc.tr.depth + rank n ≤ sc.tr.maxDepth := by rw [hst.depth, hst.maxDepth]; exact hdep
    -- one property
    have hone : ∃ ex, (∀ c ∈ ex, c = mapCtx n k ∧ k ∈ mapKeys nd) ∧
        PropPost decls ex sc k p (propStep decls P (some n) true k p sc) := by
      rcases simpleProp2_cases _ p hsimple with ⟨ty, e⟩ | ⟨t, e, hmem, hno, hne⟩ | ⟨i, e, hi⟩ | ⟨req, a, e, ha⟩
      · subst e
        exact ⟨[], (fun c hc => by cases hc), propStep_prim2 decls P hP.prim n k ty sc hw⟩
      · subst e
        have hc : rank t + 1 ≤ rank n := hcost
        exact ⟨[], (fun c hc => by cases hc), propStep_ref2 decls rank hS P r hP.named n k t sc hw
          (TK2.anti hk hc) hmem hno hne (by omega) (by omega)⟩
      · subst e
        have hc : leafCost rank i + 1 ≤ rank n := hcost
        exact ⟨[], (fun c hc => by cases hc), propStep_arr2 decls rank P r hP.arr n k i sc (rank n) hi (by omega)
          (by omega) (by omega) hw hk⟩
      · subst e
        have hc : leafCost rank a + 1 ≤ rank n := hcost
        have hkm : k ∈ mapKeys nd := hmk rfl
        obtain ⟨hcn, hcsan⟩ := hS.ctxFresh (n, nd) hmemd k hkm
        refine ⟨[mapCtx n k], fun c hc => ⟨List.mem_singleton.mp hc, hkm⟩, ?_⟩
        refine propStep_map2 decls rank P r hP.map n k a req sc (rank n) hn hcn hcsan ha (by omega) (by omega)
          (by omega) hw hk (hfree (k, _) (List.mem_cons_self ..) rfl) ?_
        intro d hd k' hk' heq
        have := (hS.ctxInj d hd (n, nd) hmemd k' hk' k hkm heq).1
        rw [this, hsn]
        exact fun x => by cases x
    obtain ⟨ex, hex, h1, h2, h3, h4⟩ := hone
    rw [dSet_of_not_has _ _ _ hnotin]
    have hsub : ∀ c ∈ ex, c ∈ ctxsOf n nd := by
      intro c hc
      obtain ⟨e1, e2⟩ := hex c hc
      rw [e1]
      exact List.mem_map.mpr ⟨k, e2, rfl⟩
    have hsn' : dGet n (propStep decls P (some n) true k p sc).2.tr.states = some .inProgress := by
      rcases h1.states n with e | ⟨e, _, _⟩
      · rw [e]; exact hsn
      · rw [hsn] at e; cases e
    have hk' : TK2 decls rank (propStep decls P (some n) true k p sc).2 (rank n) := by
      refine TK2.step h1 h2 ?_ hk
      intro d hd k' hk' hin
      obtain ⟨e1, e2⟩ := hex _ hin
      have := (hS.ctxInj d hd (n, nd) hmemd k' hk' k e2 e1).1
      rw [this, hsn']
      exact fun x => by cases x
    have hfree' : ∀ kv ∈ rest, isMapNode kv.2 = true →
        dGet (mapCtx n kv.1) (propStep decls P (some n) true k p sc).2.tr.states = none := by
      intro kv hkv hm
      have h0 := hfree kv (List.mem_cons_of_mem _ hkv) hm
      have hkvm : kv.1 ∈ mapKeys nd := (hrest kv (List.mem_cons_of_mem _ hkv)).2.2.2 hm
      have hkne' : kv.1 ≠ k := by
        intro e
        simp only [List.map_append, List.map_cons] at hnd
        have hnd2 := (List.nodup_append.mp hnd).2.1
        simp only [List.nodup_cons] at hnd2
        exact hnd2.1 (e ▸ List.mem_map.mpr ⟨kv, hkv, rfl⟩)
      have hnotex : mapCtx n kv.1 ∉ ex := by
        intro hin
        obtain ⟨e1, e2⟩ := hex _ hin
        exact hkne' (hS.ctxInj (n, nd) hmemd (n, nd) hmemd kv.1 hkvm k e2 e1).2
      by_cases hch : dGet (mapCtx n kv.1) (propStep decls P (some n) true k p sc).2.tr.states =
          dGet (mapCtx n kv.1) sc.tr.states
      · rw [hch]; exact h0
      · have := (h2 (n, nd) hmemd kv.1 hkvm hnotex hch).1
        rw [hsn] at this
        cases this
    have hall' : All2 (FieldOK2 (decls.map (·.1)) (propStep decls P (some n) true k p sc).2) (done ++ [(k, p)])
        (acc ++ [(k, (propStep decls P (some n) true k p sc).1)]) :=
      All2.snoc (All2.imp (fun a b hab => FieldOK2.step h1.hstep.toW a b hab) hall) h4
    have := ih (done ++ [(k, p)]) _ s0 _ (fun kv hkv => hrest kv (List.mem_cons_of_mem _ hkv))
      (by simpa [List.append_assoc] using hnd) (Step.trans hst h1)
      (Own.trans hst h1 hown (Own.mono hsub h2)) h3 hk' hsn' hdep hfree' hall'
    simpa [List.append_assoc] using this


/-! ### one declared schema -/

theorem simpleNode2_inv (names : List Str) (nd : Node) (h : simpleNode2 names nd = true) :
    (∃ ps req, nd = .obj (some ps) req none ∧
      (∀ kv ∈ ps, kv.1 ≠ [] ∧ simpleProp2 names kv.2 = true) ∧ (ps.map (·.1)).Nodup) ∨
    (∃ i, nd = .arr i ∧ simpleProp names i = true) ∨
    (∃ ty, nd = .prim ty false) := by
  cases nd with
  | obj props req ap =>
    cases props with
    | none => simp [simpleNode2] at h
    | some ps =>
      cases ap with
      | some a => simp [simpleNode2] at h
      | none =>
        simp only [simpleNode2, Bool.and_eq_true, List.all_eq_true, decide_eq_true_eq] at h
        refine Or.inl ⟨ps, req, rfl, ?_, h.2⟩
        intro kv hkv
        have := h.1 kv hkv
        simp only [Bool.not_eq_true'] at this
        refine ⟨?_, this.2⟩
        intro e
        rw [e] at this
        simp at this
  | arr i => exact Or.inr (Or.inl ⟨i, rfl, h⟩)
  | prim ty e =>
    cases e with
    | false => exact Or.inr (Or.inr ⟨ty, rfl⟩)
    | true => simp [simpleNode2] at h
  | ref _ => simp [simpleNode2] at h
  | allOf _ _ _ => simp [simpleNode2] at h
  | oneOf _ => simp [simpleNode2] at h
  | anyOf _ => simp [simpleNode2] at h
  | nullable _ => simp [simpleNode2] at h

theorem body_obj_eq (decls : Decls) (P : PFn) (n : Str) (ps : List (Str × Node)) (req : List Str) (s : PSt)
    (hn : n ≠ []) (hsan : sanClass n = n) :
    body decls P (some n) (.obj (some ps) req none) true s =
      finish decls (some n)
        ((parseProps decls P (some n) true ps [] s).2.alloc
          { name := some n, type := some sObject, props := (parseProps decls P (some n) true ps [] s).1,
            required := dedup req }).1
        ((parseProps decls P (some n) true ps [] s).2.alloc
          { name := some n, type := some sObject, props := (parseProps decls P (some n) true ps [] s).1,
            required := dedup req }).2 := by
  have hmk : ∀ fp, mkIR { name := some n, type := some sObject, props := fp, required := dedup req } =
      { name := some n, type := some sObject, props := fp, required := dedup req } :=
    fun fp => mkIR_named n hn hsan _ rfl
  simp [body, Node.core, truthy_of_ne n hn, hsan, hmk]

theorem parseItems_leaf' (names : List Str) (P : PFn) (name : Option Str) (i : Node) (s : PSt)
    (h : simpleProp names i = true) : parseItems P name i true s = P none i true s := by
  rcases simpleProp_cases _ i h with ⟨ty, e⟩ | ⟨t, e, _⟩
  · subst e
    simp [parseItems, itemName, Node.isRef, Node.isPrim, Node.core, Node.isObjType]
  · subst e
    simp [parseItems, itemName, Node.isRef, Node.isPrim, Node.core, Node.isObjType]

theorem body_arr_named_eq (decls : Decls) (P : PFn) (n : Str) (i : Node) (s : PSt) (hn : n ≠ [])
    (hsan : sanClass n = n) (h : simpleProp (decls.map (·.1)) i = true) :
    body decls P (some n) (.arr i) true s =
      finish decls (some n)
        ((P none i true s).2.alloc { name := some n, type := some sArray, items := some (P none i true s).1 }).1
        ((P none i true
            ((P none i true s).2.alloc { name := some n, type := some sArray, items := some (P none i true s).1 }).2).2.modify
          ((P none i true s).2.alloc { name := some n, type := some sArray, items := some (P none i true s).1 }).1
          (fun o => { o with items := some (P none i true
            ((P none i true s).2.alloc { name := some n, type := some sArray, items := some (P none i true s).1 }).2).1 })) := by
  have hmk : ∀ x, mkIR { name := some n, type := some sArray, items := some x } =
      { name := some n, type := some sArray, items := some x } :=
    fun x => mkIR_named n hn hsan _ rfl
  simp [body, Node.core, truthy_of_ne n hn, hsan, parseItems_leaf' _ P _ i _ h, hmk]

theorem body_prim_named_eq (decls : Decls) (P : PFn) (n : Str) (ty : PrimTy) (s : PSt) (hn : n ≠ [])
    (hsan : sanClass n = n) :
    body decls P (some n) (.prim ty false) true s =
      finish decls (some n) (s.alloc { name := some n, type := some ty.str }).1
        (s.alloc { name := some n, type := some ty.str }).2 := by
  have hmk : mkIR { name := some n, type := some ty.str, hasEnum := false } =
      { name := some n, type := some ty.str } := mkIR_named n hn hsan _ rfl
  simp [body, Node.core, truthy_of_ne n hn, hsan, hmk]

/-- the common end of the three cases of `parseStep_spec2` -/
theorem spec_finish (decls : Decls) (rank : Str → Nat) (hS : Simple2 decls rank) (n : Str) (nd : Node)
    (hmemd : (n, nd) ∈ decls) (s se sa : PSt) (model : IR) (extra : List IR)
    (hstate : dGet n s.tr.states = none) (hk : TK2 decls rank s (rank n + 1))
    (hl1 : Step (afterEnter s n) se) (hown : Own decls (ctxsOf n nd) (afterEnter s n) se) (hw : WF2 decls se)
    (hah : sa.heap = se.heap ++ model :: extra) (har : sa.reg = se.reg) (hao : sa.oom = se.oom)
    (hat : TrSame se.tr sa.tr) (hname : model.name = some n)
    (hm : ∀ sf, HStep se sf → sf.get se.heap.length = model → ModelOK2 decls sf n se.heap.length) :
    ∃ sf, ((finish decls (some n) se.heap.length sa).1,
           ({ ((finish decls (some n) se.heap.length sa).2.doExit (some n)) with
              nest := ((finish decls (some n) se.heap.length sa).2.doExit (some n)).nest - 1 } : PSt))
          = (se.heap.length, sf) ∧ Post2 decls s n (se.heap.length, sf) := by
  obtain ⟨hn, hsan⟩ := hS.name (n, nd) hmemd
  have hnmem : n ∈ decls.map (·.1) := List.mem_map.mpr ⟨(n, nd), hmemd, rfl⟩
  have hnstack : n ∉ s.tr.stack := by
    intro hm'
    have := hk.2.1 n hm'
    rw [hstate] at this
    cases this
  have hnreg : s.regHas n = false := by
    rcases hk.2.2.1 n with ⟨_, b⟩ | ⟨x, _⟩ | ⟨x, _⟩
    · exact b
    · rw [hstate] at x; cases x
    · rw [hstate] at x; cases x
  obtain ⟨sf, heq, hst, hhs, hfheap, hfreg, hnone, hfstates, hfget⟩ :=
    named_close decls n s se sa model extra hn hstate hnstack hnreg hk.1 hl1 hah har hao hat hname
      (fun _ _ _ _ => dHas_of_mem decls (n, nd) hmemd)
  refine ⟨sf, heq, hst, ?_, WF2.close hw hhs hfreg hfheap (fun _ => hm sf hhs hfget), by
    show dGet n sf.reg = _; rw [hfreg, dGet_dSet_self]⟩
  refine own_close hfstates hown ?_
  intro d hd k hk' _
  refine ⟨fun e => (hS.ctxFresh d hd k hk').1 (e ▸ hnmem), ?_⟩
  intro hin
  obtain ⟨k0, hk0, e0⟩ := List.mem_map.mp hin
  have := (hS.ctxInj d hd (n, nd) hmemd k hk' k0 hk0 e0.symm).1
  exact ⟨by rw [this]; exact hstate, this⟩


theorem mem_mapKeys_of_mem {ps : List (Str × Node)} {req : List Str} {ap : Option Node} {kv : Str × Node}
    (h : kv ∈ ps) (hm : isMapNode kv.2 = true) : kv.1 ∈ mapKeys (.obj (some ps) req ap) := by
  unfold mapKeys nodeProps
  exact List.mem_map.mpr ⟨kv, List.mem_filter.mpr ⟨h, hm⟩, rfl⟩

/-- `_parse_schema` on a declared schema of the fragment: `SpecP2` one rank up. -/
theorem parseStep_spec2 (decls : Decls) (rank : Str → Nat) (P : PFn) (r : Nat) (hS : Simple2 decls rank)
    (hP : Spec2 decls rank P r) : SpecP2 decls rank (parseStep decls P) (r + 1) := by
  intro n nd s hget hr hpre
  obtain ⟨hw, hk, hnreg, hdep⟩ := hpre
  have hmem := mem_of_dGet decls n nd hget
  have hnmem : n ∈ decls.map (·.1) := List.mem_map.mpr ⟨(n, nd), hmem, rfl⟩
  obtain ⟨hn, hsan⟩ := hS.name (n, nd) hmem
  have hn : n ≠ [] := hn
  have hsan : sanClass n = n := hsan
  have hstate : dGet n s.tr.states = none := by
    rcases hk.2.2.1 n with ⟨a, _⟩ | ⟨_, b⟩ | ⟨_, b, _⟩
    · exact a
    · rw [hnreg] at b; cases b
    · have := b hnmem; omega
  have he := enter_fresh2 hk hn hstate (by omega)
  have hps := parseStep_named_eq decls P n nd s he
  obtain ⟨h1stack, h1depth, h1max, h1cyc, h1states, h1heap, h1reg, h1oom⟩ := afterEnter_facts s n
  have hk1 : TK2 decls rank (afterEnter s n) (rank n) :=
    TK2.afterEnter hk hstate (Nat.le_succ _) (fun _ => Nat.le_refl _)
      (fun d hd k hk' e => absurd (e ▸ hnmem) (hS.ctxFresh d hd k hk').1)
  have hw1 : WF2 decls (afterEnter s n) := WF2.congr h1heap h1reg hw
  have hcosts := hS.cost (n, nd) hmem
  rcases simpleNode2_inv _ nd (hS.node (n, nd) hmem) with ⟨ps, req, e, hprops, hnodup⟩ | ⟨i, e, hi⟩ | ⟨ty, e⟩
  · -- an object
    subst e
    rw [body_obj_eq decls P n ps req _ hn hsan] at hps
    have hcond : ∀ kv ∈ ps, kv.1 ≠ [] ∧ simpleProp2 (decls.map (·.1)) kv.2 = true ∧ propCost rank kv.2 ≤ rank n ∧
        (isMapNode kv.2 = true → kv.1 ∈ mapKeys (.obj (some ps) req none)) := by
      intro kv hkv
      obtain ⟨a, b⟩ := hprops kv hkv
      exact ⟨a, b, hcosts.2 kv hkv, mem_mapKeys_of_mem hkv⟩
    have hfree : ∀ kv ∈ ps, isMapNode kv.2 = true → dGet (mapCtx n kv.1) (afterEnter s n).tr.states = none := by
      intro kv hkv hm
      have hkm := mem_mapKeys_of_mem (req := req) (ap := none) hkv hm
      have hcn : mapCtx n kv.1 ≠ n := fun e => (hS.ctxFresh (n, _) hmem kv.1 hkm).1 (by rw [e]; exact hnmem)
      rw [h1states, dGet_dSet_ne _ _ _ _ hcn]
      cases hc : dGet (mapCtx n kv.1) s.tr.states with
      | none => rfl
      | some v =>
        have := hk.2.2.2 (n, _) hmem kv.1 hkm (by rw [hc]; exact fun x => by cases x)
        exact absurd hstate this
    obtain ⟨hl1, hl2, hl3, hl4⟩ := parseProps_spec2 decls rank hS P r hP n _ hmem (by omega) ps [] []
      (afterEnter s n) (afterEnter s n) hcond (by simpa using hnodup) (Step.refl _) (Own.of_states_eq rfl) hw1 hk1
      (by rw [h1states, dGet_dSet_self]) (by rw [h1depth, h1max]; omega) hfree .nil
    generalize hq : parseProps decls P (some n) true ps [] (afterEnter s n) = q at hl1 hl2 hl3 hl4 hps
    obtain ⟨fp, se⟩ := q
    simp only [List.nil_append] at hl1 hl2 hl3 hl4 hps
    obtain ⟨sf, heq, hpost⟩ := spec_finish decls rank hS n _ hmem s se
      (se.alloc { name := some n, type := some sObject, props := fp, required := dedup req }).2
      { name := some n, type := some sObject, props := fp, required := dedup req } [] hstate hk hl1 hl2 hl3 rfl rfl rfl
      (TrSame.rfl' _) rfl (by
        intro sf hhs hfget
        refine ⟨_, fp, hget, by rw [hfget]; rfl, by rw [hfget], by rw [hfget]; rfl, ?_⟩
        exact All2.imp (fun a b hab => FieldOK2.step hhs.toW a b hab) hl4)
    have hps' : parseStep decls P (some n) (.obj (some ps) req none) true s = (se.heap.length, sf) := by
      rw [hps]; exact heq
    rw [hps']
    exact hpost
  · -- an array of a leaf
    subst e
    rw [body_arr_named_eq decls P n i _ hn hsan hi] at hps
    have hmodel : ∀ (sf se : PSt) (x : Nat), HStep se sf →
        sf.get se.heap.length = { name := some n, type := some sArray, items := some x } →
        ModelOK2 decls sf n se.heap.length := by
      intro sf se x _ hfget
      exact ⟨_, [], hget, by rw [hfget]; rfl, by rw [hfget], by rw [hfget]; rfl, .nil⟩
    rcases simpleProp_cases _ i hi with ⟨ty, e⟩ | ⟨t, e, hmemt, hno, hne⟩
    · subst e
      obtain ⟨a1, a2, a3, a4, a5⟩ := hP.prim ty (afterEnter s n)
      generalize P none (.prim ty false) true (afterEnter s n) = qa at a1 a2 a3 a4 a5 hps
      obtain ⟨qai, se⟩ := qa
      simp only at a1 a2 a3 a4 a5 hps
      subst a1
      have hsel : se.heap.length = (afterEnter s n).heap.length + 1 := by rw [a2]; simp
      generalize hal : se.alloc { name := some n, type := some sArray, items := some (afterEnter s n).heap.length } = al
        at hps
      have hal1 : al.1 = se.heap.length := by rw [← hal]; rfl
      have hal2 : al.2.heap = se.heap ++ [{ name := some n, type := some sArray, items := some (afterEnter s n).heap.length }] := by
        rw [← hal]; rfl
      have halr : al.2.reg = se.reg := by rw [← hal]; rfl
      have halo : al.2.oom = se.oom := by rw [← hal]; rfl
      have halt : al.2.tr = se.tr := by rw [← hal]; rfl
      obtain ⟨c1, c2, c3, c4, c5⟩ := hP.prim ty al.2
      generalize P none (.prim ty false) true al.2 = qc at c1 c2 c3 c4 c5 hps
      obtain ⟨qci, qcs⟩ := qc
      simp only at c1 c2 c3 c4 c5 hps
      subst c1
      have hlen : al.2.heap.length = se.heap.length + 1 := by rw [hal2]; simp
      rw [hal1] at hps
      generalize hsa : qcs.modify se.heap.length (fun o => { o with items := some al.2.heap.length }) = sa at hps
      have hsah : sa.heap = se.heap ++ ({ name := some n, type := some sArray, items := some (se.heap.length + 1) } : IR) :: [{ type := some ty.str }] := by
        rw [← hsa]
        show qcs.heap.modify se.heap.length _ = _
        rw [c2, hlen, hal2, List.append_assoc]
        have := modify_append_add se.heap ([{ name := some n, type := some sArray, items := some (afterEnter s n).heap.length }] ++ [({ type := some ty.str } : IR)]) 0
          (fun o => { o with items := some (se.heap.length + 1) })
        simpa using this
      have hst1 : Step (afterEnter s n) se := step_of_ext _ a2 a3 a4 a5
      obtain ⟨sf, heq, hpost⟩ := spec_finish decls rank hS n _ hmem s se sa _ _ hstate hk hst1
        (Own.of_states_eq a5.2.2.2.2) (WF2.step (hstep_of_ext _ a2 a3).toW a3 hw1) hsah
        (by rw [← hsa]; show qcs.reg = _; rw [c3, halr])
        (by rw [← hsa]; show qcs.oom = _; rw [c4, halo])
        (by rw [← hsa, ← halt]; exact c5) rfl
        (fun sf hhs hfget => hmodel sf se _ hhs hfget)
      have hps' : parseStep decls P (some n) (.arr (.prim ty false)) true s = (se.heap.length, sf) := by
        rw [hps]; exact heq
      rw [hps']
      exact hpost
    · subst e
      obtain ⟨ndt, hndt⟩ := dGet_of_mem_keys decls t hmemt
      have hc : rank t + 2 ≤ rank n := hcosts.1
      obtain ⟨a1, a2, a3, a4⟩ := hP.ref t ndt (afterEnter s n) (rank n) hndt hno hne (by omega) (by omega)
        (by rw [h1depth, h1max]; omega) hw1 hk1
      generalize P none (.ref t) true (afterEnter s n) = qa at a1 a2 a3 a4 hps
      obtain ⟨rid, se⟩ := qa
      simp only at a1 a2 a3 a4 hps
      have hridlt : rid < se.heap.length := wf2_reg_lt a3 t rid a4
      generalize hal : se.alloc { name := some n, type := some sArray, items := some rid } = al at hps
      have hal1 : al.1 = se.heap.length := by rw [← hal]; rfl
      have hal2 : al.2.heap = se.heap ++ [{ name := some n, type := some sArray, items := some rid }] := by
        rw [← hal]; rfl
      have halr : al.2.reg = se.reg := by rw [← hal]; rfl
      have halo : al.2.oom = se.oom := by rw [← hal]; rfl
      have halt : al.2.tr = se.tr := by rw [← hal]; rfl
      have hdm : (al.2.get rid).depthMarker = false := by
        have : al.2.get rid = se.get rid := by
          unfold PSt.get; rw [hal2]; exact getD_append_left _ _ _ hridlt
        rw [this]
        obtain ⟨_, _, _, hfull, _⟩ := (a3.1 t rid a4).2 hmemt
        exact (kind_full_flags hfull).1
      obtain ⟨c1, c2, c3, c4, c5⟩ := hP.hit t al.2 rid hno hne (by rw [halr]; exact a4) hdm
      generalize P none (.ref t) true al.2 = qc at c1 c2 c3 c4 c5 hps
      obtain ⟨qci, qcs⟩ := qc
      simp only at c1 c2 c3 c4 c5 hps
      subst c1
      rw [hal1] at hps
      generalize hsa : qcs.modify se.heap.length (fun o => { o with items := some qci }) = sa at hps
      have hsah : sa.heap = se.heap ++ ({ name := some n, type := some sArray, items := some qci } : IR) :: [] := by
        rw [← hsa]
        show qcs.heap.modify se.heap.length _ = _
        rw [c2, hal2, modify_append_length]
      obtain ⟨sf, heq, hpost⟩ := spec_finish decls rank hS n _ hmem s se sa _ _ hstate hk a1
        (Own.mono (fun c hc => by cases hc) a2) a3 hsah
        (by rw [← hsa]; show qcs.reg = _; rw [c3, halr])
        (by rw [← hsa]; show qcs.oom = _; rw [c4, halo])
        (by rw [← hsa, ← halt]; exact c5) rfl
        (fun sf hhs hfget => hmodel sf se _ hhs hfget)
      have hps' : parseStep decls P (some n) (.arr (.ref t)) true s = (se.heap.length, sf) := by
        rw [hps]; exact heq
      rw [hps']
      exact hpost
  · -- a primitive alias
    subst e
    rw [body_prim_named_eq decls P n ty _ hn hsan] at hps
    obtain ⟨sf, heq, hpost⟩ := spec_finish decls rank hS n _ hmem s (afterEnter s n)
      ((afterEnter s n).alloc { name := some n, type := some ty.str }).2 { name := some n, type := some ty.str } []
      hstate hk (Step.refl _) (Own.of_states_eq rfl) hw1 rfl rfl rfl (TrSame.rfl' _) rfl (by
        intro sf _ hfget
        exact ⟨_, [], hget, by rw [hfget]; rfl, by rw [hfget], by rw [hfget]; rfl, .nil⟩)
    have hps' : parseStep decls P (some n) (.prim ty false) true s = ((afterEnter s n).heap.length, sf) := by
      rw [hps]; exact heq
    rw [hps']
    exact hpost


/-! ### induction on the fuel -/

theorem parse_spec2 (decls : Decls) (rank : Str → Nat) (hS : Simple2 decls rank) (f : Nat) :
    Spec2 decls rank (parse decls (f + 1)) f := by
  induction f with
  | zero =>
    refine ⟨parseStep_primSpec decls _, parseStep_refHit decls _, ?_, ?_, ?_, ?_⟩
    · intro n nd s _ hr
      exact absurd hr (Nat.not_lt_zero _)
    · intro t nd s R _ _ _ hr
      exact absurd hr (Nat.not_lt_zero _)
    · intro i s R _ hr
      exact absurd hr (Nat.not_lt_zero _)
    · intro c a req s R _ _ _ _ hr
      exact absurd hr (Nat.not_lt_zero _)
  | succ f ih =>
    exact ⟨parseStep_primSpec decls _, parseStep_refHit decls _, parseStep_spec2 decls rank _ f hS ih,
      parseStep_refSpec decls rank _ f ih.named, parseStep_arrSpec decls rank _ f hS ih.prim ih.hit ih.ref,
      parseStep_mapSpec decls rank _ f ih.prim ih.ref⟩

/-! ### the top-level loop -/

/-- tracker at rest, coherent with the registry -/
def TKtop2 (decls : Decls) (rank : Str → Nat) (s : PSt) : Prop :=
  ∀ R, TK2 decls rank s R

theorem TKtop2.step {decls : Decls} {rank : Str → Nat} {s s' : PSt} (h : TKtop2 decls rank s) (hs : Step s s')
    (ho : Own decls [] s s') : TKtop2 decls rank s' :=
  fun R => TK2.step hs ho (fun _ _ _ _ hin => by cases hin) (h R)

theorem buildLoop_spec2 (decls : Decls) (rank : Str → Nat) (hS : Simple2 decls rank) (F : Nat)
    (hF : ∀ d ∈ decls, rank d.1 < F) (ds : List (Str × Node)) :
    ∀ s : PSt, (∀ d ∈ ds, d ∈ decls) → WF2 decls s → TKtop2 decls rank s → s.tr.depth = 0 →
      (∀ d ∈ decls, rank d.1 + 1 ≤ s.tr.maxDepth) →
      Step s (buildLoop decls (F + 1) ds s) ∧ WF2 decls (buildLoop decls (F + 1) ds s) ∧
      TKtop2 decls rank (buildLoop decls (F + 1) ds s) ∧
      ∀ d ∈ ds, (buildLoop decls (F + 1) ds s).regHas d.1 = true := by
  induction ds with
  | nil =>
    intro s _ hw hk _ _
    exact ⟨Step.refl s, hw, hk, fun d hd => by cases hd⟩
  | cons d rest ih =>
    intro s hsub hw hk hd0 hmd
    obtain ⟨n, nd⟩ := d
    have hmem : (n, nd) ∈ decls := hsub _ (List.mem_cons_self ..)
    obtain ⟨hn, hsan⟩ := hS.name (n, nd) hmem
    have hsan' : sanClass n = n := hsan
    have hrest : ∀ d ∈ rest, d ∈ decls := fun d hd => hsub d (List.mem_cons_of_mem _ hd)
    simp only [buildLoop, hsan', Bool.and_self]
    split
    · rename_i hcond
      have hnreg : s.regHas n = false := by
        cases h : s.regHas n with
        | false => rfl
        | true => simp [h] at hcond
      have hget : dGet n decls = some nd := dGet_of_mem_nodup decls hS.nodup n nd hmem
      have hpre : Pre2 decls rank s n :=
        ⟨hw, hk _, hnreg, by have := hmd (n, nd) hmem; simp only at this; omega⟩
      obtain ⟨h1, h1o, h2, h3⟩ := (parse_spec2 decls rank hS F).named n nd s hget (hF (n, nd) hmem) hpre
      have hk1 := hk.step h1 h1o
      obtain ⟨i1, i2, i3, i4⟩ := ih _ hrest h2 hk1 (by rw [h1.depth]; exact hd0)
        (by rw [h1.maxDepth]; exact hmd)
      refine ⟨Step.trans h1 i1, i2, i3, ?_⟩
      intro d hd
      rcases List.mem_cons.mp hd with e | e
      · subst e
        exact i1.regMono _ ((regHas_iff_dGet _ _).mpr ⟨_, h3⟩)
      · exact i4 d e
    · rename_i hcond
      obtain ⟨i1, i2, i3, i4⟩ := ih s hrest hw hk hd0 hmd
      refine ⟨i1, i2, i3, ?_⟩
      intro d hd
      rcases List.mem_cons.mp hd with e | e
      · subst e
        have : s.regHas n = true := by
          cases h : s.regHas n with
          | true => rfl
          | false => simp [h] at hcond
        exact i1.regMono _ this
      · exact i4 d e

/-! ### reading the result: `WF2` gives `Faithful` -/

theorem lookup_declared2 (decls : Decls) (rank : Str → Nat) (hS : Simple2 decls rank) (s : PSt) (m : Str)
    (hm : m ∈ decls.map (·.1)) : s.lookup m = dGet m s.reg := by
  unfold PSt.lookup
  rw [sanClass_of_declared2 decls rank hS m hm]
  cases dGet m s.reg <;> rfl

/-- an object no DECLARED name is registered for has no declared name -/
theorem declNameOf_none (decls : Decls) (rank : Str → Nat) (hS : Simple2 decls rank) (s : PSt) (pid : Nat)
    (h : ∀ m ∈ decls.map (·.1), dGet m s.reg ≠ some pid) : declNameOf decls s pid = none := by
  unfold declNameOf
  rw [List.find?_eq_none]
  intro m hm
  rw [lookup_declared2 decls rank hS s m hm]
  intro hcontra
  have : dGet m s.reg = some pid := by simpa using hcontra
  exact h m hm this

theorem declNameOf_declared (decls : Decls) (rank : Str → Nat) (hS : Simple2 decls rank) (s : PSt)
    (hw : WF2 decls s) (t : Str) (pid : Nat) (ht : t ∈ decls.map (·.1)) (h : dGet t s.reg = some pid) :
    declNameOf decls s pid = some t := by
  unfold declNameOf
  cases hf : (decls.map (·.1)).find? (fun n => s.lookup n == some pid) with
  | none =>
    rw [List.find?_eq_none] at hf
    have := hf t ht
    rw [lookup_declared2 decls rank hS s t ht, h] at this
    simp at this
  | some t' =>
    have hmem := List.mem_of_find?_eq_some hf
    have hp := List.find?_some hf
    rw [lookup_declared2 decls rank hS s t' hmem] at hp
    have : dGet t' s.reg = some pid := by simpa using hp
    rw [hw.2 t' t pid this h]

/-- fuel `irKind` needs to read a kind -/
def kfuel : Kind → Nat
  | .arr K => kfuel K + 1
  | .obj => 2
  | _ => 1

theorem irKind_anon_unfold (decls : Decls) (s : PSt) (pid f : Nat) (hfull : (s.get pid).kind = .full)
    (hdecl : declNameOf decls s pid = none) :
    irKind decls s (f + 1) pid =
      (match (s.get pid).refersTo with
       | some t => irKind decls s f t
       | none =>
         match (s.get pid).type with
         | none => if (s.get pid).anyOf.isSome || (s.get pid).oneOf.isSome then .union else .unknown
         | some t =>
           if t == sArray then .arr (match (s.get pid).items with | some i => irKind decls s f i | none => .unknown)
           else if t == sObject then .obj
           else if t == PrimTy.string.str then .prim .string
           else if t == PrimTy.integer.str then .prim .integer
           else if t == PrimTy.number.str then .prim .number
           else if t == PrimTy.boolean.str then .prim .boolean
           else .ref t) := by
  rw [irKind]
  simp only [hfull, hdecl]
  rfl

theorem irKind_denotes (decls : Decls) (rank : Str → Nat) (hS : Simple2 decls rank) (s : PSt) (hw : WF2 decls s) :
    ∀ (K : Kind) (pid f : Nat), Denotes (decls.map (·.1)) s K pid → kfuel K ≤ f → irKind decls s f pid = K := by
  have hanon : ∀ pid, Anon s pid → declNameOf decls s pid = none := by
    intro pid ha
    exact declNameOf_none decls rank hS s pid (fun m _ hm => ha.2.2 m pid hm rfl)
  intro K
  induction K with
  | prim ty =>
    intro pid f hd hf
    obtain ⟨h1, h2, h3⟩ := hd
    obtain ⟨f, rfl⟩ : ∃ f', f = f' + 1 := ⟨f - 1, by simp only [kfuel] at hf; omega⟩
    rw [irKind_anon_unfold decls s pid f h1.2.1 (hanon pid h1), h2, h3]
    cases ty <;> rfl
  | ref t =>
    intro pid f hd hf
    obtain ⟨ht, hg⟩ := hd
    obtain ⟨f, rfl⟩ : ∃ f', f = f' + 1 := ⟨f - 1, by simp only [kfuel] at hf; omega⟩
    obtain ⟨_, _, _, hfull, _⟩ := (hw.1 t pid hg).2 ht
    rw [irKind]
    simp only [hfull, declNameOf_declared decls rank hS s hw t pid ht hg,
      sanClass_of_declared2 decls rank hS t ht]
    rfl
  | arr K ih =>
    intro pid f hd hf
    obtain ⟨h1, h2, h3, iid, h4, h5⟩ := hd
    obtain ⟨f, rfl⟩ : ∃ f', f = f' + 1 := ⟨f - 1, by simp only [kfuel] at hf; omega⟩
    rw [irKind_anon_unfold decls s pid f h1.2.1 (hanon pid h1), h2, h3, h4]
    simp only [beq_self_eq_true, if_true]
    rw [ih iid f h5 (by simp only [kfuel] at hf; omega)]
  | obj =>
    intro pid f hd hf
    obtain ⟨h1, c, mid, h2, h3, h4, h5, h6, h7, h8⟩ := hd
    obtain ⟨f, rfl⟩ : ∃ f', f = f' + 2 := ⟨f - 2, by simp only [kfuel] at hf; omega⟩
    rw [irKind_anon_unfold decls s pid (f + 1) h1.2.1 (hanon pid h1), h2]
    have hdm : declNameOf decls s mid = none := by
      refine declNameOf_none decls rank hS s mid ?_
      intro m hm hg
      exact h3 (hw.2 c m mid h4 hg ▸ hm)
    simp only []
    rw [irKind_anon_unfold decls s mid f h6 hdm, h7, h8]
    rfl
  | union => intro pid f hd; exact hd.elim
  | unknown => intro pid f hd; exact hd.elim

theorem kfuel_simpleProp2 (names : List Str) (p : Node) (h : simpleProp2 names p = true) :
    kfuel (nodeKind p) ≤ 6 := by
  rcases simpleProp2_cases _ p h with ⟨ty, e⟩ | ⟨t, e, _⟩ | ⟨i, e, hi⟩ | ⟨req, a, e, _⟩
  · subst e; simp [nodeKind, kfuel]
  · subst e; simp [nodeKind, kfuel]
  · subst e
    rcases simpleProp_cases _ i hi with ⟨ty, e⟩ | ⟨t, e, _⟩
    · subst e; simp [nodeKind, kfuel]
    · subst e; simp [nodeKind, kfuel]
  · subst e; simp [nodeKind, kfuel]

theorem fields_faithful2 (decls : Decls) (rank : Str → Nat) (hS : Simple2 decls rank) (s : PSt) (hw : WF2 decls s)
    (req : List Str) :
    ∀ (ps : List (Str × Node)) (fp : List (Str × Nat)),
      (∀ kv ∈ ps, simpleProp2 (decls.map (·.1)) kv.2 = true) → All2 (FieldOK2 (decls.map (·.1)) s) ps fp →
      fp.map (fun e => (⟨e.1, (dedup req).contains e.1, irKind decls s 6 e.2⟩ : Field)) =
      ps.map (fun kv => (⟨kv.1, req.contains kv.1, nodeKind kv.2⟩ : Field)) := by
  intro ps fp hs hall
  induction hall with
  | nil => rfl
  | @cons a b l l' hab _ ih =>
    simp only [List.map_cons]
    rw [ih (fun kv hkv => hs kv (List.mem_cons_of_mem _ hkv)), hab.1,
      irKind_denotes decls rank hS s hw _ _ 6 hab.2 (kfuel_simpleProp2 _ _ (hs a (List.mem_cons_self ..))),
      dedup_contains]


theorem All2.nil_left {α β : Type} {R : α → β → Prop} {l : List β} (h : All2 R [] l) : l = [] := by
  cases h; rfl

theorem faithful_of_WF2 (decls : Decls) (rank : Str → Nat) (hS : Simple2 decls rank) (s : PSt) (hw : WF2 decls s)
    (n : Str) (i : Nat) (hmem : n ∈ decls.map (·.1)) (h : dGet n s.reg = some i) : Faithful decls s n := by
  obtain ⟨nd, fp, hget, hfull, hprops, hreq, hall⟩ := (hw.1 n i h).2 hmem
  have hmemd := mem_of_dGet decls n _ hget
  have hlook : s.lookup n = some i := by simp [PSt.lookup, h]
  have hmodel : modelFields decls s n =
      some (fp.map (fun e => (⟨e.1, (dedup (nodeReq nd)).contains e.1, irKind decls s 6 e.2⟩ : Field))) := by
    unfold modelFields
    rw [hlook]
    simp only [hprops, hreq]
  have hfuel : specFuel decls = (specFuel decls - 1) + 1 := by unfold specFuel; omega
  have hspec : specFields decls n =
      (nodeProps nd).map (fun kv => (⟨kv.1, (nodeReq nd).contains kv.1, nodeKind kv.2⟩ : Field)) := by
    unfold specFields
    rw [hget]
    simp only []
    rw [hfuel]
    rcases simpleNode2_inv _ nd (hS.node (n, _) hmemd) with ⟨ps, req, e, _, hnodup⟩ | ⟨it, e, _⟩ | ⟨ty, e⟩
    · subst e
      simp only [shape, Node.core, nodeProps, nodeReq]
      rw [mergeKeyed_append _ [] (by simpa [List.map_map, Function.comp_def] using hnodup) (by simp)]
      simp [List.map_map]
    · subst e
      simp [shape, Node.core, nodeProps]
    · subst e
      simp [shape, Node.core, nodeProps]
  have hsimple : ∀ kv ∈ nodeProps nd, simpleProp2 (decls.map (·.1)) kv.2 = true := by
    rcases simpleNode2_inv _ nd (hS.node (n, _) hmemd) with ⟨ps, req, e, hp, _⟩ | ⟨it, e, _⟩ | ⟨ty, e⟩
    · subst e
      exact fun kv hkv => (hp kv hkv).2
    · subst e
      intro kv hkv; cases hkv
    · subst e
      intro kv hkv; cases hkv
  refine ⟨_, hmodel, ?_, ?_⟩
  · intro id hid
    rw [hlook] at hid
    cases hid
    exact hfull
  · intro f
    rw [hspec, fields_faithful2 decls rank hS s hw (nodeReq nd) (nodeProps nd) fp hsimple hall]

/-- the whole of `build_schemas` on the fragment -/
theorem buildSchemas_faithful2 (decls : Decls) (rank : Str → Nat) (hS : Simple2 decls rank) (maxDepth F : Nat)
    (hF : ∀ d ∈ decls, rank d.1 < F) (hD : ∀ d ∈ decls, rank d.1 + 1 ≤ maxDepth) :
    (buildSchemas maxDepth (F + 1) decls).oom = false ∧ missing decls (buildSchemas maxDepth (F + 1) decls) = [] ∧
    ∀ d ∈ decls, Faithful decls (buildSchemas maxDepth (F + 1) decls) d.1 := by
  have hw0 : WF2 decls ({ tr := { maxDepth := maxDepth } } : PSt) :=
    ⟨fun m i h => by simp [dGet] at h, fun m m' i h => by simp [dGet] at h⟩
  have hk0 : TKtop2 decls rank ({ tr := { maxDepth := maxDepth } } : PSt) := by
    intro R
    refine ⟨rfl, (fun m hm => by cases hm), (fun m => Or.inl ⟨by simp [dGet], rfl⟩), ?_⟩
    intro d _ k _ hne
    exact absurd (by simp [dGet]) hne
  obtain ⟨h1, h2, _, h4⟩ := buildLoop_spec2 decls rank hS F hF decls _ (fun _ h => h) hw0 hk0 rfl hD
  refine ⟨by unfold buildSchemas; rw [h1.oom], ?_, ?_⟩
  · unfold missing
    rw [List.filter_eq_nil_iff]
    intro n hn
    obtain ⟨d, hd, rfl⟩ := List.mem_map.mp hn
    unfold buildSchemas
    simp [h4 d hd]
  · intro d hd
    obtain ⟨i, hi⟩ := (regHas_iff_dGet _ _).mp (h4 d hd)
    exact faithful_of_WF2 decls rank hS _ h2 d.1 i (List.mem_map.mpr ⟨d, hd, rfl⟩) hi

/-! ### the fragment contains `Simple` and is closed under re-ordering the declarations -/

theorem simpleProp2_of_simpleProp (names : List Str) (p : Node) (h : simpleProp names p = true) :
    simpleProp2 names p = true := by
  rcases simpleProp_cases _ p h with ⟨ty, e⟩ | ⟨t, e, _⟩
  · subst e; exact h
  · subst e; exact h

theorem isMapNode_of_simpleProp (names : List Str) (p : Node) (h : simpleProp names p = true) :
    isMapNode p = false := by
  rcases simpleProp_cases _ p h with ⟨ty, e⟩ | ⟨t, e, _⟩
  · subst e; rfl
  · subst e; rfl

theorem Simple.toSimple2 {decls : Decls} {rank : Str → Nat} (hS : Simple decls rank) : Simple2 decls rank := by
  have hkeys : ∀ d ∈ decls, mapKeys d.2 = [] := by
    intro d hd
    obtain ⟨ps, req, e, hp, _⟩ := simpleNode_inv _ d.2 (hS.node d hd)
    unfold mapKeys
    rw [e]
    simp only [nodeProps, List.map_eq_nil_iff, List.filter_eq_nil_iff]
    intro kv hkv
    rw [isMapNode_of_simpleProp _ _ (hp kv hkv).2]
    exact Bool.false_ne_true
  refine ⟨hS.nodup, ?_, hS.name, ?_, ?_, ?_⟩
  · intro d hd
    obtain ⟨ps, req, e, hp, hnd⟩ := simpleNode_inv _ d.2 (hS.node d hd)
    rw [e]
    simp only [simpleNode2, Bool.and_eq_true, List.all_eq_true, decide_eq_true_eq]
    refine ⟨fun kv hkv => ?_, hnd⟩
    obtain ⟨a, b⟩ := hp kv hkv
    refine ⟨?_, simpleProp2_of_simpleProp _ _ b⟩
    cases hk : kv.1 with
    | nil => exact absurd hk a
    | cons c cs => rfl
  · intro d hd
    obtain ⟨ps, req, e, hp, _⟩ := simpleNode_inv _ d.2 (hS.node d hd)
    refine ⟨by rw [e]; exact Nat.zero_le _, ?_⟩
    intro kv hkv
    rw [e] at hkv
    have hkv' : kv ∈ ps := hkv
    rcases simpleProp_cases _ kv.2 (hp kv hkv').2 with ⟨ty, e'⟩ | ⟨t, e', _⟩
    · rw [e']; exact Nat.zero_le _
    · rw [e']
      exact hS.acyclic d hd ps req none e kv hkv' t e'
  · intro d hd k hk
    rw [hkeys d hd] at hk
    cases hk
  · intro d hd d' _ k hk
    rw [hkeys d hd] at hk
    cases hk

theorem simpleProp2_congr (names names' : List Str) (h : ∀ t, t ∈ names ↔ t ∈ names') (p : Node) :
    simpleProp2 names p = simpleProp2 names' p := by
  cases p with
  | ref t => exact simpleProp_congr names names' h (.ref t)
  | prim ty e => exact simpleProp_congr names names' h (.prim ty e)
  | arr i => exact simpleProp_congr names names' h i
  | obj props req ap =>
    cases props with
    | some ps => rfl
    | none =>
      cases ap with
      | none => rfl
      | some a => exact simpleProp_congr names names' h a
  | allOf _ _ _ => rfl
  | oneOf _ => rfl
  | anyOf _ => rfl
  | nullable _ => rfl

theorem simpleNode2_congr (names names' : List Str) (h : ∀ t, t ∈ names ↔ t ∈ names') (nd : Node) :
    simpleNode2 names nd = simpleNode2 names' nd := by
  cases nd with
  | obj props req ap =>
    cases props with
    | none => rfl
    | some ps =>
      cases ap with
      | some a => rfl
      | none =>
        simp only [simpleNode2]
        congr 2
        funext kv
        rw [simpleProp2_congr names names' h]
  | arr i => exact simpleProp_congr names names' h i
  | ref _ => rfl
  | prim _ e => cases e <;> rfl
  | allOf _ _ _ => rfl
  | oneOf _ => rfl
  | anyOf _ => rfl
  | nullable _ => rfl

theorem Simple2.perm {d d' : Decls} {rank : Str → Nat} (hS : Simple2 d rank) (hp : d.Perm d') : Simple2 d' rank where
  nodup := (hp.map (·.1)).nodup_iff.mp hS.nodup
  node := by
    intro x hx
    rw [← simpleNode2_congr (d.map (·.1)) (d'.map (·.1)) (fun t => (hp.map (·.1)).mem_iff)]
    exact hS.node x (hp.mem_iff.mpr hx)
  name := fun x hx => hS.name x (hp.mem_iff.mpr hx)
  cost := fun x hx => hS.cost x (hp.mem_iff.mpr hx)
  ctxFresh := by
    intro x hx k hk
    obtain ⟨a, b⟩ := hS.ctxFresh x (hp.mem_iff.mpr hx) k hk
    exact ⟨fun hin => a ((hp.map (·.1)).mem_iff.mpr hin), b⟩
  ctxInj := fun x hx y hy => hS.ctxInj x (hp.mem_iff.mpr hx) y (hp.mem_iff.mpr hy)

end Pog.Prs
