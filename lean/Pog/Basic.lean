def hello := "world"
