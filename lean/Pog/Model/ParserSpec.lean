import Pog.Model.Parser
/-
  Independent denotation for C02: what the DOCUMENT says the fields of a named schema are
  (`specFields`), and how the result of the parser model is read back (`modelFields`).

  The denotation does not look at the parser at all: own properties, plus the properties of every
  `allOf` part, transitively, `$ref`s followed through a visited set.  Where the document itself is
  ambiguous (the same key in several `allOf` parts) the first part wins and own properties override,
  which is also what `_process_all_of` does; the partial theorems exclude that case anyway.
-/
namespace Pog.Prs
open Pog Pog.Trk

/-- the structural kind of a property, as far as C02 cares -/
inductive Kind
  | prim (ty : PrimTy)
  | ref (name : Str)
  | arr (item : Kind)
  | obj
  | union
  | unknown
  deriving DecidableEq, Repr, Inhabited

structure Field where
  key : Str
  required : Bool
  kind : Kind
  deriving DecidableEq, Repr

/-- the kind the document gives to a property node; schema names are compared class-cased
    (`sanitize_class_name`), the only form in which the IR carries them -/
def nodeKind : Node → Kind
  | .ref t => .ref (sanClass (lastSeg t))
  | .prim ty _ => .prim ty
  | .obj _ _ _ => .obj
  | .arr i => .arr (nodeKind i)
  | .allOf _ _ _ => .obj
  | .oneOf _ => .union
  | .anyOf _ => .union
  | .nullable n => nodeKind n

/-- first-wins merge of keyed lists -/
def mergeKeyed {β : Type} (a b : List (Str × β)) : List (Str × β) :=
  b.foldl (fun acc kv => if dHas kv.1 acc then acc else acc ++ [kv]) a

/-- declared properties (key ↦ kind) and required names of a node, `allOf` and `$ref` followed;
    `vis` = names already being expanded (cycles through `allOf` contribute nothing) -/
def shape (decls : Decls) : Nat → List Str → Node → List (Str × Kind) × List Str
  | 0, _, _ => ([], [])
  | f + 1, vis, node =>
    match node.core with
    | .ref t =>
      let n := lastSeg t
      if vis.contains n then ([], []) else
      match dGet n decls with
      | some nd => shape decls f (n :: vis) nd
      | none => ([], [])
    | .obj (some ps) req _ => (mergeKeyed [] (ps.map (fun kv => (kv.1, nodeKind kv.2))), req)
    | .obj none req _ => ([], req)
    | .allOf parts ps req =>
      let sub := parts.map (shape decls f vis)
      let inherited := sub.foldl (fun acc r => mergeKeyed acc r.1) []
      let own := mergeKeyed [] (ps.map (fun kv => (kv.1, nodeKind kv.2)))
      -- own properties override inherited ones (in place), new ones are appended
      let props := own.foldl (fun acc kv => dSet kv.1 kv.2 acc) inherited
      (props, sub.foldl (fun acc r => unionInto acc r.2) (dedup req))
    | _ => ([], [])

def Node.size : Node → Nat
  | .ref _ => 1
  | .prim _ _ => 1
  | .obj _ _ _ => 1
  | .arr _ => 1
  | .allOf parts _ _ => 1 + (parts.map Node.size).sum
  | .oneOf _ => 1
  | .anyOf _ => 1
  | .nullable n => 1 + n.size

/-- enough fuel for `shape`: every hop either enters an `allOf` part or follows a `$ref` to a name not
    yet visited -/
def specFuel (decls : Decls) : Nat := (decls.map (fun d => d.2.size + 1)).sum + 2

/-- `specFields`: the fields the document declares for the named schema `n`. -/
def specFields (decls : Decls) (n : Str) : List Field :=
  match dGet n decls with
  | none => []
  | some nd =>
    let r := shape decls (specFuel decls) [n] nd
    r.1.map (fun kv => ⟨kv.1, r.2.contains kv.1, kv.2⟩)

/-! ### reading the parser's result -/

/-- the declared name whose registered model IS this object (identity) -/
def declNameOf (decls : Decls) (s : PSt) (id : Nat) : Option Str :=
  (decls.map (·.1)).find? (fun n => s.lookup n == some id)

/-- the kind a property object stands for: placeholders stand for the schema they name, the model
    object of a declared schema is a reference to it, reference holders are looked through, anything
    else is read structurally -/
def irKind (decls : Decls) (s : PSt) : Nat → Nat → Kind
  | 0, _ => .unknown
  | f + 1, id =>
    let o := s.get id
    if o.kind != .full then (match o.name with | some nm => .ref nm | none => .unknown) else
    match declNameOf decls s id with
    | some n => .ref (sanClass n)
    | none =>
      match o.refersTo with
      | some t => irKind decls s f t
      | none =>
        match o.type with
        | none => if o.anyOf.isSome || o.oneOf.isSome then .union else .unknown
        | some t =>
          if t == sArray then .arr (match o.items with | some i => irKind decls s f i | none => .unknown)
          else if t == sObject then .obj
          else if t == PrimTy.string.str then .prim .string
          else if t == PrimTy.integer.str then .prim .integer
          else if t == PrimTy.number.str then .prim .number
          else if t == PrimTy.boolean.str then .prim .boolean
          else .ref t

/-- `none`: the name has no model at all; otherwise one field per property of the model -/
def modelFields (decls : Decls) (s : PSt) (n : Str) : Option (List Field) :=
  match s.lookup n with
  | none => none
  | some id =>
    let o := s.get id
    some (o.props.map (fun kv => ⟨kv.1, o.required.contains kv.1, irKind decls s 6 kv.2⟩))

/-- C02 for one declared name: a model exists, is a full schema, and has exactly the declared fields
    (as a set: same keys, each with the same required flag and kind). -/
def Faithful (decls : Decls) (s : PSt) (n : Str) : Prop :=
  ∃ fs, modelFields decls s n = some fs ∧
    (∀ id, s.lookup n = some id → (s.get id).kind = .full) ∧
    (∀ f, f ∈ fs ↔ f ∈ specFields decls n)

instance (decls : Decls) (s : PSt) (n : Str) : Decidable (Faithful decls s n) :=
  match h : modelFields decls s n with
  | none => isFalse (by rintro ⟨fs, h1, _⟩; rw [h] at h1; cases h1)
  | some fs =>
    if h2 : (∀ id, s.lookup n = some id → (s.get id).kind = .full) ∧
        (∀ f ∈ fs, f ∈ specFields decls n) ∧ (∀ f ∈ specFields decls n, f ∈ fs) then
      isTrue ⟨fs, h, h2.1, fun f => ⟨h2.2.1 f, h2.2.2 f⟩⟩
    else
      isFalse (by
        rintro ⟨fs', h1, h3, h4⟩
        rw [h] at h1
        cases h1
        exact h2 ⟨h3, fun f hf => (h4 f).mp hf, fun f hf => (h4 f).mpr hf⟩)

end Pog.Prs
