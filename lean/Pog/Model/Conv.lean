import Pog.Model.Json
/-
  M-conv — the bundled (de)serialiser: `core/cattrs_converter.py` (`structure_from_dict`,
  `unstructure_to_dict`, `_structure_union`, the dataclass hook factories with the `Meta` rename maps,
  the recursive hook registration, `_extract_errors`) and `DataclassSerializer` (`core/utils.py:358-520`).

  Python                                         model
  ---------------------------------------------  ------------------------------------------------------
  a type annotation                              `Ty`  (`Optional[T]` = `Union[T, None]` = `.optional T`;
                                                 `Annotated[Union[…], disc]` = `.union args (some disc)`;
                                                 a quoted forward reference inside a generic, which cattrs
                                                 does NOT resolve, = `.fwd name`)
  the dataclasses that exist                     `Decls` (class name ↦ fields + the two `Meta` maps)
  a Python value                                 `Val`
  `converter.structure(data, T)`                 `structF fuel decls T data`   (`fuel` bounds the nesting depth;
                                                 `.error (.leaf .fuel)` is not a Python outcome)
  the exception raised                           `SErr` (tree: leaf | ClassValidationError | IterableValidationError)
  `_extract_errors`                              `extractErrors`
  `structure_from_dict`                          `structureFromDict`  (every failure is a `ValueError`: `TopErr`)
  `converter.unstructure(v, unstructure_as=T)`   `unstrF fuel reg decls (some T) v`
  `converter.unstructure(v)` (runtime class)     `unstrF fuel reg decls none v`
  the global converter's registered dataclass
  unstructure hooks                              `reg : List Str`
  `unstructure_to_dict`                          `unstructureToDict`
  `_register_*_hooks_recursively`                `regTy`

  Leaf codecs (base64, ISO-8601 date-time / date / time, UUID) are a parameter `Codecs`; theorems quantify over every lawful one, the
  driver uses `Codecs.exec`, which accepts only canonical spellings (see there).

  TRUSTED — behaviour of cattrs 26.2 described here as executable code and validated by corr_conv.py:
    * `str`/`int`/`float`/`bool` are structured by CALLING the type (`str(5) == "5"`, `int("7") == 7`, `bool("false")`);
      `Any` is the identity; enums are structured by `E(value)`;
    * `list[T]` iterates whatever it is given (a `str` yields its characters, a `dict` its keys); `dict[str, T]` needs
      `.items()`; element errors are collected into an `IterableValidationError`;
    * a dataclass is structured field by field in declaration order by generated code (`o['k']` inside `try`, the
      presence test `'k' in o` of defaulted fields OUTSIDE it), unknown keys are ignored, the errors are collected into a
      `ClassValidationError`; a field type without a structure hook makes the generation itself fail;
    * unstructuring is driven by the DECLARED field type, except `Any` and unions (other than `Optional`) which use
      the runtime class; a type without unstructure hook is passed through unchanged (identity fallback);
    * hooks registered later win; the union predicate of this module therefore also captures `Optional[T]`.
-/
namespace Pog

/-! ## types, declarations, values -/

inductive Leaf
  | str | int | float | bool | bytes | datetime | date | uuid | time
  deriving DecidableEq, Repr, Inhabited

/-- Discriminator metadata of `Annotated[Union[…], M]`: `M.property_name`, `M.get_mapping()`
    (`none` = returns `None`; the mapping sends a discriminator value to a dataclass). -/
structure Disc where
  prop : Str
  mapping : Option (List (Str × Str))
  deriving Repr, Inhabited

inductive Ty where
  | leaf (l : Leaf)
  | any
  | none                                   -- `type(None)`, only meaningful as a union member
  | list (t : Ty)
  | dict (t : Ty)                          -- `dict[str, T]`
  | optional (t : Ty)                      -- `Union[T, None]`
  | dc (name : Str)
  | fwd (name : Str)                       -- `ForwardRef(name)` left unresolved by cattrs
  | enum (name : Str) (members : List JsonV)
  | union (args : List Ty) (disc : Option Disc)
  deriving Repr, Inhabited

inductive Dflt
  | required | none | list | dict
  deriving DecidableEq, Repr, Inhabited

structure Field where
  pyName : Str
  ty : Ty
  dflt : Dflt
  deriving Repr, Inhabited

/-- One dataclass: its fields in declaration order and `Meta.key_transform_with_load/dump`
    (`none` = the attribute does not exist). -/
structure ClassDecl where
  fields : List Field
  loadMap : Option (List (Str × Str))      -- json key ↦ python field
  dumpMap : Option (List (Str × Str))      -- python field ↦ json key
  deriving Repr, Inhabited

abbrev Decls := List (Str × ClassDecl)

/-- `_make_dataclass_structure_fn`: the first json key of the load map whose value is the field, else the
    field name itself. -/
def loadKeyIn : List (Str × Str) → Str → Option Str
  | [], _ => none
  | (jk, pf) :: rest, py => if pf = py then some jk else loadKeyIn rest py

def loadKey (cd : ClassDecl) (f : Field) : Str :=
  match cd.loadMap with
  | some m => (loadKeyIn m f.pyName).getD f.pyName
  | none => f.pyName

/-- `_make_dataclass_unstructure_fn`: `mappings.get(python_name, python_name)`. -/
def dumpKey (cd : ClassDecl) (f : Field) : Str :=
  match cd.dumpMap with
  | some m => (aget m f.pyName).getD f.pyName
  | none => f.pyName

inductive Val where
  | none
  | bool (b : Bool)
  | int (n : Int)
  | str (s : Str)
  | bytes (v : Str)
  | datetime (v : Str)
  | date (v : Str)
  | time (v : Str)                          -- `datetime.time`
  | uuid (v : Str)                          -- `uuid.UUID`
  | enum (cls : Str) (v : JsonV)            -- a member of a `str`/`int`-mixin enum
  | opaque (kind : Str) (v : Str)          -- any other object json cannot serialise (a non-integral float, …)
  | list (xs : List Val)
  | dict (kvs : List (Str × Val))
  | inst (cls : Str) (fields : List (Str × Val))
  deriving Repr, Inhabited

mutual
/-- JSON-shaped data seen as a Python value. -/
def Val.ofJson : JsonV → Val
  | .null => .none
  | .bool b => .bool b
  | .int n => .int n
  | .str s => .str s
  | .arr xs => .list (Val.ofJsons xs)
  | .obj kvs => .dict (Val.ofJsonKvs kvs)
def Val.ofJsons : List JsonV → List Val
  | [] => []
  | x :: xs => Val.ofJson x :: Val.ofJsons xs
def Val.ofJsonKvs : List (Str × JsonV) → List (Str × Val)
  | [] => []
  | (k, v) :: rest => (k, Val.ofJson v) :: Val.ofJsonKvs rest
end

mutual
/-- The JSON a value IS when handed to `json.dumps` unchanged; `none` = not serialisable. -/
def Val.toJson? : Val → Option JsonV
  | .none => some .null
  | .bool b => some (.bool b)
  | .int n => some (.int n)
  | .str s => some (.str s)
  | .enum _ v => some v
  | .list xs => (Val.toJsons? xs).map JsonV.arr
  | .dict kvs => (Val.toJsonKvs? kvs).map JsonV.obj
  | _ => Option.none
def Val.toJsons? : List Val → Option (List JsonV)
  | [] => some []
  | x :: xs =>
    match Val.toJson? x, Val.toJsons? xs with
    | some j, some js => some (j :: js)
    | _, _ => Option.none
def Val.toJsonKvs? : List (Str × Val) → Option (List (Str × JsonV))
  | [] => some []
  | (k, v) :: rest =>
    match Val.toJson? v, Val.toJsonKvs? rest with
    | some j, some js => some ((k, j) :: js)
    | _, _ => Option.none
end

/-! ## leaf codecs -/

/-- A wire codec for one leaf type: `decode` = the structure hook on a `str` (`none` = it raises),
    `encode` = the unstructure hook.  Values are kept in an abstract normal form `Str`. -/
structure LeafCodec where
  decode : Str → Option Str
  encode : Str → Str

structure Codecs where
  bytes : LeafCodec
  datetime : LeafCodec
  date : LeafCodec
  time : LeafCodec
  uuid : LeafCodec

/-- Every value that can be decoded at all is recovered from its own encoding. -/
def LeafCodec.Lawful (c : LeafCodec) : Prop :=
  ∀ s v, c.decode s = some v → c.decode (c.encode v) = some v

def Codecs.Lawful (c : Codecs) : Prop :=
  c.bytes.Lawful ∧ c.datetime.Lawful ∧ c.date.Lawful ∧ c.time.Lawful ∧ c.uuid.Lawful

/-- The values of a leaf type. -/
def LeafCodec.Valid (c : LeafCodec) (v : Str) : Prop := ∃ s, c.decode s = some v

/-! ### the executable instance used by the driver

  Values are kept as their canonical wire spelling, `encode` is the identity and `decode` accepts
    * bytes    : ASCII text whose alphabet characters form canonical base64 (length ≡ 0 mod 4, zero trailing bits,
                 padding only at the end; other characters are skipped as `b64decode` does) — `b64decode` is laxer;
    * datetime : `YYYY-MM-DDTHH:MM:SS` with an optional `Z` or `±HH:MM` (not `-00:00`), `Z` ↦ `+00:00`; a bare
                 `YYYY-MM-DD` is midnight;
    * date     : `YYYY-MM-DD`;
    * time     : `HH:MM:SS` with an optional `Z` or `±HH:MM` (not `-00:00`), `Z` ↦ `+00:00` (`time.fromisoformat` of
                 Python ≥ 3.11 reads a trailing `Z` as UTC; `isoformat()` writes `+00:00`);
    * uuid     : the canonical spelling `str(UUID)` writes: 8-4-4-4-12 lower-case hexadecimal digits — `UUID(s)` is laxer
                 (upper case, braces, `urn:uuid:`, no hyphens).
  corr_conv.py draws leaf strings from these languages and from strings CPython rejects as well. -/

def b64Index (c : Char) : Option Nat :=
  if isUpperA c then some (c.toNat - 65)
  else if isLowerA c then some (c.toNat - 97 + 26)
  else if isDigitA c then some (c.toNat - 48 + 52)
  else if c == '+' then some 62
  else if c == '/' then some 63
  else none

def b64LastQuad (a b c d : Char) : Bool :=
  match b64Index a, b64Index b with
  | some _, some ib =>
    if c == '=' then d == '=' && ib % 16 == 0
    else match b64Index c with
      | some ic => if d == '=' then ic % 4 == 0 else (b64Index d).isSome
      | none => false
  | _, _ => false

def b64Canonical : Str → Bool
  | [] => true
  | [a, b, c, d] => b64LastQuad a b c d
  | a :: b :: c :: d :: rest =>
    (b64Index a).isSome && (b64Index b).isSome && (b64Index c).isSome && (b64Index d).isSome && b64Canonical rest
  | _ => false

/-- `binascii.a2b_base64` (non-strict) skips every character outside the alphabet. -/
def b64Filter (s : Str) : Str := s.filter (fun c => (b64Index c).isSome || c == '=')

def twoDigits (a b : Char) : Option Nat :=
  if isDigitA a && isDigitA b then some ((a.toNat - 48) * 10 + (b.toNat - 48)) else none

def daysInMonth (y m : Nat) : Nat :=
  if m == 2 then (if (y % 4 == 0 && y % 100 != 0) || y % 400 == 0 then 29 else 28)
  else if m == 4 || m == 6 || m == 9 || m == 11 then 30 else 31

def isoDateValid : Str → Bool
  | [y1, y2, y3, y4, '-', m1, m2, '-', d1, d2] =>
    match twoDigits y1 y2, twoDigits y3 y4, twoDigits m1 m2, twoDigits d1 d2 with
    | some yh, some yl, some m, some d =>
      let y := yh * 100 + yl
      1 ≤ y && 1 ≤ m && m ≤ 12 && 1 ≤ d && d ≤ daysInMonth y m
    | _, _, _, _ => false
  | _ => false

def isoClockValid : Str → Bool
  | [h1, h2, ':', m1, m2, ':', s1, s2] =>
    match twoDigits h1 h2, twoDigits m1 m2, twoDigits s1 s2 with
    | some h, some m, some s => h ≤ 23 && m ≤ 59 && s ≤ 59
    | _, _, _ => false
  | _ => false

def isoOffsetValid : Str → Bool
  | [] => true
  | [sg, h1, h2, ':', m1, m2] =>
    match twoDigits h1 h2, twoDigits m1 m2 with
    | some h, some m => (sg == '+' || (sg == '-' && (h != 0 || m != 0))) && h ≤ 23 && m ≤ 59
    | _, _ => false
  | _ => false

def isoDateTimeValid (s : Str) : Bool :=
  isoDateValid (s.take 10) && ((s.drop 10).head? == some 'T') &&
    isoClockValid ((s.drop 11).take 8) && isoOffsetValid (s.drop 19)

def isoTimeValid (s : Str) : Bool := isoClockValid (s.take 8) && isoOffsetValid (s.drop 8)

def isLowerHex (c : Char) : Bool := isDigitA c || (97 ≤ c.toNat && c.toNat ≤ 102)

/-- `n` lower-case hexadecimal digits, then `rest`. -/
def hexRun : Nat → Str → Option Str
  | 0, s => some s
  | _ + 1, [] => none
  | n + 1, c :: cs => if isLowerHex c then hexRun n cs else none

/-- `n` lower-case hexadecimal digits, a hyphen, then `rest`. -/
def hexGroup (n : Nat) (s : Str) : Option Str :=
  match hexRun n s with
  | some ('-' :: rest) => some rest
  | _ => none

def uuidCanonical (s : Str) : Bool :=
  match hexGroup 8 s with
  | none => false
  | some s1 =>
    match hexGroup 4 s1 with
    | none => false
    | some s2 =>
      match hexGroup 4 s2 with
      | none => false
      | some s3 =>
        match hexGroup 4 s3 with
        | none => false
        | some s4 => hexRun 12 s4 == some []

/-- `data.replace("Z", "+00:00")` -/
def replaceZ (s : Str) : Str := s.flatMap (fun c => if c == 'Z' then "+00:00".toList else [c])

def Codecs.exec : Codecs :=
  { bytes := { decode := fun s => if s.all isAscii && b64Canonical (b64Filter s) then some (b64Filter s) else none,
               encode := id }
    datetime := { decode := fun s =>
                    if isoDateValid (replaceZ s) then some (replaceZ s ++ "T00:00:00".toList)
                    else if isoDateTimeValid (replaceZ s) then some (replaceZ s) else none,
                  encode := id }
    date := { decode := fun s => if isoDateValid s then some s else none, encode := id }
    time := { decode := fun s => if isoTimeValid (replaceZ s) then some (replaceZ s) else none, encode := id }
    uuid := { decode := fun s => if uuidCanonical s then some s else none, encode := id } }

/-! ## which leaves have hooks

  FACT ABOUT THE SOURCE (`converter.register_structure_hook(T, …)` / `register_unstructure_hook(T, …)` calls in
  core/cattrs_converter.py): (leaf, has structure hook, has unstructure hook). -/
def leafSupported : List (Leaf × Bool × Bool) :=
  [(.bytes, true, true), (.datetime, true, true), (.date, true, true), (.time, true, true), (.uuid, true, true)]

/-- Leaves cattrs itself structures (by calling the type) and unstructures (identity).  TRUSTED. -/
def cattrsBuiltinLeaves : List Leaf := [.str, .int, .float, .bool]

def leafCanStructure (l : Leaf) : Bool :=
  cattrsBuiltinLeaves.contains l || leafSupported.any (fun e => e.1 == l && e.2.1)

def leafHasUnstructureHook (l : Leaf) : Bool :=
  leafSupported.any (fun e => e.1 == l && e.2.2)

/-! ## structuring -/

inductive EKind
  | keyError (k : Str)          -- `o['k']` on a dict without the key; the message is `repr(k)`
  | badIndex                    -- `o['k']` on a non-dict: TypeError
  | notContainer                -- `'k' in o` on None/bool/int: TypeError
  | noneForClass (cls : Str)    -- the dataclass hook's own TypeError for `None`
  | numLiteral                  -- `int('x')`: ValueError
  | numArg                      -- `int(None)`, `int([])`: TypeError
  | notIterable                 -- list from None/bool/int
  | noItems                     -- dict[str, T] from a non-dict: AttributeError
  | b64                         -- binascii.Error
  | isoformat                   -- ValueError of `fromisoformat`
  | notTemporal                 -- `Cannot convert <type> to datetime/date/time/UUID`
  | uuidForm                    -- ValueError of `UUID(s)`: badly formed hexadecimal UUID string
  | enumInvalid                 -- `x is not a valid E`
  | unsupported                 -- StructureHandlerNotFoundError
  | unionNone                   -- `None is not valid for …`
  | unionNoVariant              -- `Could not structure dict into any variant of …`
  | unionCannot                 -- `Cannot structure … into …`
  | discUnknown                 -- `Unknown discriminator value …`
  | discFailed (variant : Str)  -- `Failed to deserialize as V (discriminator …)`
  | unhashable                  -- `discriminator_value in mapping` on a list/dict
  | unknownClass                -- model only: a class name without declaration
  | fuel                        -- model only
  deriving DecidableEq, Repr, Inhabited

inductive SErr where
  | leaf (k : EKind)
  | cls (name : Str) (subs : List (Str × SErr))    -- ClassValidationError: (attribute, sub-exception)
  | iter (subs : List SErr)                          -- IterableValidationError
  deriving Repr, Inhabited

mutual
/-- `_extract_errors(e, path)`: one `(path, leaf)` per leaf exception, depth first. -/
def extractErrors : SErr → Str → List (Str × EKind)
  | .leaf k, p => [(p, k)]
  | .cls _ subs, p => extractCls subs p
  | .iter subs, p => extractIter subs (p ++ "[]".toList)
def extractCls : List (Str × SErr) → Str → List (Str × EKind)
  | [], _ => []
  | (f, e) :: rest, p =>
    extractErrors e (if p.isEmpty then f else p ++ '.' :: f) ++ extractCls rest p
def extractIter : List SErr → Str → List (Str × EKind)
  | [], _ => []
  | e :: rest, p => extractErrors e p ++ extractIter rest p
end

/-- Does `converter.get_structure_hook(T)` succeed (it is evaluated when the enclosing dataclass /
    list / dict structure function is GENERATED, before any data is looked at). -/
def resolvable : Ty → Bool
  | .leaf l => leafCanStructure l
  | .any => true
  | .none => false
  | .list t => resolvable t
  | .dict t => resolvable t
  | .optional _ => true
  | .dc _ => true
  | .fwd _ => false
  | .enum _ _ => true
  | .union _ _ => true

def pyInt (j : JsonV) : Except SErr Val :=
  match j with
  | .bool b => .ok (.int (if b then 1 else 0))
  | .int n => .ok (.int n)
  | .str s =>
    match pyIntOfStr s with
    | some n => .ok (.int n)
    | none => .error (.leaf .numLiteral)
  | _ => .error (.leaf .numArg)

def structLeaf (c : Codecs) (l : Leaf) (j : JsonV) : Except SErr Val :=
  match l with
  | .str => .ok (.str (pyStr j))
  | .int => pyInt j
  | .float => pyInt j
  | .bool => .ok (.bool (pyTruthy j))
  | .bytes =>
    match j with
    | .str s =>
      match c.bytes.decode s with
      | some v => .ok (.bytes v)
      | none => .error (.leaf .b64)
    | _ => .ok (Val.ofJson j)                    -- `return data`
  | .datetime =>
    match j with
    | .str s =>
      match c.datetime.decode s with
      | some v => .ok (.datetime v)
      | none => .error (.leaf .isoformat)
    | _ => .error (.leaf .notTemporal)
  | .date =>
    match j with
    | .str s =>
      match c.date.decode s with
      | some v => .ok (.date v)
      | none => .error (.leaf .isoformat)
    | _ => .error (.leaf .notTemporal)
  | .time =>
    match j with
    | .str s =>
      match c.time.decode s with
      | some v => .ok (.time v)
      | none => .error (.leaf .isoformat)
    | _ => .error (.leaf .notTemporal)
  | .uuid =>
    match j with
    | .str s =>
      match c.uuid.decode s with
      | some v => .ok (.uuid v)
      | none => .error (.leaf .uuidForm)
    | _ => .error (.leaf .notTemporal)

/-- Structure the items one after the other, collecting values and errors (detailed validation). -/
def structItems (rec : JsonV → Except SErr Val) : List JsonV → List Val × List SErr
  | [] => ([], [])
  | x :: xs =>
    let r := structItems rec xs
    match rec x with
    | .ok v => (v :: r.1, r.2)
    | .error e => (r.1, e :: r.2)

def structList (rec : JsonV → Except SErr Val) (j : JsonV) : Except SErr Val :=
  let items : Option (List JsonV) :=
    match j with
    | .arr xs => some xs
    | .str s => some (s.map (fun ch => JsonV.str [ch]))
    | .obj kvs => some (kvs.map (fun kv => JsonV.str kv.1))
    | _ => none
  match items with
  | none => .error (.leaf .notIterable)
  | some xs =>
    let r := structItems rec xs
    if r.2.isEmpty then .ok (.list r.1) else .error (.iter r.2)

def structDictItems (rec : JsonV → Except SErr Val) : List (Str × JsonV) → List (Str × Val) × List SErr
  | [] => ([], [])
  | (k, x) :: xs =>
    let r := structDictItems rec xs
    match rec x with
    | .ok v => ((k, v) :: r.1, r.2)
    | .error e => (r.1, e :: r.2)

def structDict (rec : JsonV → Except SErr Val) (j : JsonV) : Except SErr Val :=
  match j with
  | .obj kvs =>
    let r := structDictItems rec kvs
    if r.2.isEmpty then .ok (.dict (aofPairs r.1)) else .error (.iter r.2)
  | _ => .error (.leaf .noItems)

def fieldDefault : Dflt → Val
  | .required => .none     -- never used
  | .none => .none
  | .list => .list []
  | .dict => .dict []

/-- The generated `structure_<Class>` body: fields in order; `none` = the presence test of a defaulted
    field raised `TypeError` (the whole call aborts with that plain exception). -/
def structFields (rec : Ty → JsonV → Except SErr Val) (cd : ClassDecl) (o : JsonV) :
    List Field → Option (List (Str × Val) × List (Str × SErr))
  | [] => some ([], [])
  | f :: fs =>
    let key := loadKey cd f
    let present : Option Bool :=
      match f.dflt with
      | .required => some true
      | _ => pyContains o key
    match present with
    | none => none
    | some false =>
      match structFields rec cd o fs with
      | none => none
      | some r => some ((f.pyName, fieldDefault f.dflt) :: r.1, r.2)
    | some true =>
      let res : Except SErr Val :=
        match pyGetItem o key with
        | none => .error (.leaf .badIndex)
        | some none => .error (.leaf (.keyError key))
        | some (some x) => rec f.ty x
      match structFields rec cd o fs with
      | none => none
      | some r =>
        match res with
        | .ok v => some ((f.pyName, v) :: r.1, r.2)
        | .error e => some (r.1, (f.pyName, e) :: r.2)

/-- The registered dataclass hook: `None` check, then generate (`get_structure_hook` of every field type),
    then run the generated function. -/
def structClass (rec : Ty → JsonV → Except SErr Val) (decls : Decls) (name : Str) (j : JsonV) : Except SErr Val :=
  match aget decls name with
  | none => .error (.leaf .unknownClass)
  | some cd =>
    match j with
    | .null => .error (.leaf (.noneForClass name))
    | _ =>
      if !(cd.fields.all (fun f => resolvable f.ty)) then .error (.leaf .unsupported) else
      match structFields rec cd j cd.fields with
      | none => .error (.leaf .notContainer)
      | some (vals, errs) =>
        if errs.isEmpty then .ok (.inst name vals) else .error (.cls name errs)

/-- First success over the variants, in order. -/
def firstOk (rec : Ty → JsonV → Except SErr Val) (j : JsonV) : List Ty → Option Val
  | [] => none
  | t :: ts =>
    match rec t j with
    | .ok v => some v
    | .error _ => firstOk rec j ts

def isDcTy : Ty → Bool
  | .dc _ => true
  | _ => false

def isDictAny : Ty → Bool
  | .dict .any => true
  | _ => false

def isNoneTy : Ty → Bool
  | .none => true
  | _ => false

/-- `other_variants`: everything that is neither `NoneType`, a dataclass, nor `dict[str, Any]`. -/
def isOtherVariant (t : Ty) : Bool := !(isNoneTy t || isDcTy t || isDictAny t)

def isObj : JsonV → Bool
  | .obj _ => true
  | _ => false

/-- `_structure_union(data, union_type)` — branch for branch. -/
def structUnion (rec : Ty → JsonV → Except SErr Val) (args : List Ty) (disc : Option Disc) (j : JsonV) :
    Except SErr Val :=
  -- `if data is None`
  match j with
  | .null => if args.any isNoneTy then .ok .none else .error (.leaf .unionNone)
  | _ =>
  -- discriminator metadata
  let viaDisc : Option (Except SErr Val) :=
    match disc, j with
    | some d, .obj kvs =>
      match aget kvs d.prop with
      | none => none                                      -- property absent: fall through
      | some dv =>
        match d.mapping with
        | none => none                                    -- `get_mapping()` is None: fall through
        | some [] => none                                 -- empty mapping is falsy: fall through
        | some m =>
          match dv with
          | .arr _ => some (.error (.leaf .unhashable))   -- `dv in mapping` hashes `dv`
          | .obj _ => some (.error (.leaf .unhashable))
          | .str s =>
            match aget m s with
            | some variant =>
              match rec (.dc variant) j with
              | .ok v => some (.ok v)
              | .error _ => some (.error (.leaf (.discFailed variant)))
            | none => some (.error (.leaf .discUnknown))
          | _ => some (.error (.leaf .discUnknown))       -- None / bool / int are never keys of a str-keyed mapping
    | _, _ => none
  match viaDisc with
  | some r => r
  | none =>
  let dcs := args.filter isDcTy
  let fallback := args.any isDictAny
  let others := args.filter isOtherVariant
  -- `if isinstance(data, dict)`
  let viaDict : Option (Except SErr Val) :=
    if isObj j then
      match firstOk rec j dcs with
      | some v => some (.ok v)
      | none =>
        if fallback then some (.ok (Val.ofJson j))
        else if !dcs.isEmpty then some (.error (.leaf .unionNoVariant))
        else none
    else none
  match viaDict with
  | some r => r
  | none =>
  match firstOk rec j others with
  | some v => .ok v
  | none =>
    if fallback && isObj j then .ok (Val.ofJson j) else .error (.leaf .unionCannot)

def enumLookup (members : List JsonV) (j : JsonV) : Option JsonV :=
  members.find? (fun m => pyEqScalar m j)

/-- `converter.structure(data, T)` after all hooks are registered. -/
def structF (c : Codecs) : Nat → Decls → Ty → JsonV → Except SErr Val
  | 0, _, _, _ => .error (.leaf .fuel)
  | n + 1, decls, t, j =>
    if !resolvable t then .error (.leaf .unsupported) else
    match t with
    | .leaf l => structLeaf c l j
    | .any => .ok (Val.ofJson j)
    | .none => .error (.leaf .unsupported)
    | .fwd _ => .error (.leaf .unsupported)
    | .list t' => structList (structF c n decls t') j
    | .dict t' => structDict (structF c n decls t') j
    | .optional t' => structUnion (structF c n decls) [t', .none] none j
    | .union args disc => structUnion (structF c n decls) args disc j
    | .dc name => structClass (structF c n decls) decls name j
    | .enum name members =>
      match enumLookup members j with
      | some m => .ok (.enum name m)
      | none => .error (.leaf .enumInvalid)

/-- What the caller of `structure_from_dict` sees: always a `ValueError`; `grouped` = the message is the
    bulleted list of `_extract_errors` (`path: message` per leaf), otherwise the single leaf message. -/
structure TopErr where
  grouped : Bool
  msgs : List (Str × EKind)
  deriving Repr, Inhabited, DecidableEq

def topErr : SErr → TopErr
  | .leaf k => ⟨false, [([], k)]⟩
  | e => ⟨true, extractErrors e []⟩

def structureFromDict (c : Codecs) (fuel : Nat) (decls : Decls) (t : Ty) (j : JsonV) : Except TopErr Val :=
  match structF c fuel decls t j with
  | .ok v => .ok v
  | .error e => .error (topErr e)

/-! ## unstructuring -/

inductive UErr
  | typeError      -- `base64.b64encode` on a non-bytes object
  | attrError      -- `.isoformat()` / attribute access on a wrong object (e.g. `None` where a dataclass is declared)
  | notJson        -- no exception: the RESULT contains an object `json.dumps` rejects (an arbitrary object, a live instance);
                   -- reported as soon as such an object enters the result (a later entry under a DUPLICATED wire key
                   -- overwriting it is not modelled)
  | illTyped       -- model only: value/type combination `structure` never produces
  | fuel           -- model only
  deriving DecidableEq, Repr, Inhabited

def identityJson (v : Val) : Except UErr JsonV :=
  match v.toJson? with
  | some j => .ok j
  | none => .error .notJson

/-- `data.isoformat()` — the body of the `datetime`, `date` and `time` unstructure hooks: any of the three kinds of
    object has the method, everything else raises `AttributeError`. -/
def unstrIso (c : Codecs) (v : Val) : Except UErr JsonV :=
  match v with
  | .datetime d => .ok (.str (c.datetime.encode d))
  | .date d => .ok (.str (c.date.encode d))
  | .time t => .ok (.str (c.time.encode t))
  | _ => .error .attrError

/-- The registered unstructure hook of a leaf type (`str(data)` for `UUID`); no hook = identity. -/
def unstrLeaf (c : Codecs) (l : Leaf) (v : Val) : Except UErr JsonV :=
  if !leafHasUnstructureHook l then identityJson v else
  match l with
  | .bytes =>
    match v with
    | .bytes b => .ok (.str (c.bytes.encode b))
    | _ => .error .typeError
  | .datetime => unstrIso c v
  | .date => unstrIso c v
  | .time => unstrIso c v
  | .uuid =>
    match v with
    | .uuid u => .ok (.str (c.uuid.encode u))
    | .none => .ok (.str (pyStr .null))
    | .bool b => .ok (.str (pyStr (.bool b)))
    | .int i => .ok (.str (pyStr (.int i)))
    | .str s => .ok (.str s)
    | _ => .error .illTyped                       -- `str(x)` of other objects is not modelled
  | _ => identityJson v

def mapE {α β ε : Type} (f : α → Except ε β) : List α → Except ε (List β)
  | [] => .ok []
  | x :: xs =>
    match f x with
    | .error e => .error e
    | .ok y =>
      match mapE f xs with
      | .error e => .error e
      | .ok ys => .ok (y :: ys)

def mapValsE {α β ε : Type} (f : α → Except ε β) : List (Str × α) → Except ε (List (Str × β))
  | [] => .ok []
  | (k, x) :: xs =>
    match f x with
    | .error e => .error e
    | .ok y =>
      match mapValsE f xs with
      | .error e => .error e
      | .ok ys => .ok ((k, y) :: ys)

/-- The generated `unstructure_<Class>` body: a dict display over the fields in order
    (`useDump` = the hook of this module is registered, otherwise cattrs' own: python names). -/
def unstrFields (rec : Ty → Val → Except UErr JsonV) (cd : ClassDecl) (useDump : Bool)
    (attrs : List (Str × Val)) : List Field → Except UErr (List (Str × JsonV))
  | [] => .ok []
  | f :: fs =>
    match aget attrs f.pyName with
    | none => .error .attrError
    | some v =>
      match rec f.ty v with
      | .error e => .error e
      | .ok j =>
        match unstrFields rec cd useDump attrs fs with
        | .error e => .error e
        | .ok rest => .ok ((if useDump then dumpKey cd f else f.pyName, j) :: rest)

def Val.attrs : Val → List (Str × Val)
  | .inst _ fs => fs
  | _ => []

/-- `converter.unstructure(v, unstructure_as=T)` (`some T`) / `converter.unstructure(v)` (`none`: runtime class). -/
def unstrF (c : Codecs) : Nat → List Str → Decls → Option Ty → Val → Except UErr JsonV
  | 0, _, _, _, _ => .error .fuel
  | n + 1, reg, decls, some t, v =>
    match t with
    | .leaf l => unstrLeaf c l v
    | .any => unstrF c n reg decls none v
    | .none => identityJson v
    | .fwd _ => identityJson v
    | .list t' =>
      match v with
      | .list xs => (mapE (unstrF c n reg decls (some t')) xs).map JsonV.arr
      | _ => .error .illTyped
    | .dict t' =>
      match v with
      | .dict kvs => (mapValsE (unstrF c n reg decls (some t')) kvs).map JsonV.obj
      | _ => .error .illTyped
    | .optional t' =>
      match v with
      | .none => .ok .null
      | _ => unstrF c n reg decls (some t') v
    | .union _ _ => unstrF c n reg decls none v
    | .enum _ members =>
      -- a `str`-mixin enum is a `str` for singledispatch (identity); otherwise `lambda v: v.value`
      if members.all JsonV.isStr then identityJson v else
      match v with
      | .enum _ m => .ok m
      | _ => .error .attrError
    | .dc name =>
      match aget decls name with
      | none => .error .illTyped
      | some cd =>
        (unstrFields (fun ft fv => unstrF c n reg decls (some ft) fv) cd (reg.contains name) v.attrs cd.fields).map
          (fun kvs => JsonV.obj (aofPairs kvs))
  | n + 1, reg, decls, none, v =>
    match v with
    | .none => .ok .null
    | .bool b => .ok (.bool b)
    | .int i => .ok (.int i)
    | .str s => .ok (.str s)
    | .bytes b => .ok (.str (c.bytes.encode b))
    | .datetime d => .ok (.str (c.datetime.encode d))
    | .date d => .ok (.str (c.date.encode d))
    | .time t => .ok (.str (c.time.encode t))
    | .uuid u => .ok (.str (c.uuid.encode u))
    | .enum _ m => .ok m
    | .opaque _ _ => .error .notJson
    | .list xs => (mapE (unstrF c n reg decls none) xs).map JsonV.arr
    | .dict kvs => (mapValsE (unstrF c n reg decls none) kvs).map JsonV.obj
    | .inst cls _ => unstrF c n reg decls (some (.dc cls)) v

/-! ## hook registration -/

def insertName (visited : List Str) (name : Str) : List Str :=
  if visited.contains name then visited else visited ++ [name]

/-- `_register_hooks_for_nested_types` / `_register_*_hooks_recursively`: the classes visited (and
    registered) starting from a type hint; `get_type_hints` resolves forward references, so `.fwd` counts. -/
def regTy : Nat → Decls → List Str → Ty → List Str
  | 0, _, visited, _ => visited
  | n + 1, decls, visited, t =>
    match t with
    | .dc name | .fwd name =>
      if visited.contains name then visited else
      match aget decls name with
      | none => visited ++ [name]
      | some cd => cd.fields.foldl (fun vis f => regTy n decls vis f.ty) (visited ++ [name])
    | .list t' | .dict t' | .optional t' => regTy n decls visited t'
    | .union args _ => args.foldl (fun vis a => regTy n decls vis a) visited
    | _ => visited

/-- `unstructure_to_dict(instance)`: register the hooks reachable from the instance's class (only if it is a
    dataclass), then unstructure by runtime class.  Returns the result and the new registry. -/
def unstructureToDict (c : Codecs) (fuel : Nat) (reg : List Str) (decls : Decls) (v : Val) :
    Except UErr JsonV × List Str :=
  let reg' :=
    match v with
    | .inst cls _ => (regTy fuel decls [] (.dc cls)).foldl insertName reg
    | _ => reg
  -- the runtime-class dispatch of the top-level call is not charged to the depth budget
  (unstrF c (fuel + 1) reg' decls none v, reg')

/-- structure, then unstructure the result (what a client does with a response it echoes back). -/
def roundtrip (c : Codecs) (fuel : Nat) (reg : List Str) (decls : Decls) (t : Ty) (j : JsonV) :
    Except TopErr (Except UErr JsonV) :=
  match structureFromDict c fuel decls t j with
  | .error e => .error e
  | .ok v => .ok (unstructureToDict c fuel reg decls v).1

end Pog
