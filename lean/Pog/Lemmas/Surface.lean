import Pog.Model.Surface
import Pog.Lemmas.Names
/-
  Lemmas about `Pog.Model.Surface` used by `Pog.Props.C13`.
-/
namespace Pog

/-! ## `str.strip()` -/

theorem lstripWs_cons_of_not (c : Char) (cs : Str) (h : isPyWs c = false) : lstripWs (c :: cs) = c :: cs := by
  simp [lstripWs, h]

/-- `lstripWs s` is a suffix of `s`. -/
theorem lstripWs_suffix (s : Str) : ∃ pre, s = pre ++ lstripWs s := by
  induction s with
  | nil => exact ⟨[], rfl⟩
  | cons c cs ih =>
    by_cases h : isPyWs c = true
    · obtain ⟨pre, hp⟩ := ih
      refine ⟨c :: pre, ?_⟩
      simp only [lstripWs, h, if_true, List.cons_append]
      rw [← hp]
    · exact ⟨[], by simp [lstripWs, h]⟩

theorem lstripWs_head (s : Str) : ∀ c cs, lstripWs s = c :: cs → isPyWs c = false := by
  induction s with
  | nil => intro c cs h; simp [lstripWs] at h
  | cons d ds ih =>
    intro c cs h
    by_cases hd : isPyWs d = true
    · simp only [lstripWs, hd, if_true] at h
      exact ih c cs h
    · simp only [lstripWs, hd] at h
      simp only [Bool.false_eq_true, if_false, List.cons.injEq] at h
      rw [← h.1]; simpa using hd

/-- No leading and no trailing Python whitespace. -/
def Stripped (s : Str) : Prop :=
  (∀ c cs, s = c :: cs → isPyWs c = false) ∧ (∀ c cs, s.reverse = c :: cs → isPyWs c = false)

theorem Stripped.nil : Stripped [] := by
  constructor <;> intro c cs h <;> simp at h

theorem stripWs_of_stripped {s : Str} (h : Stripped s) : stripWs s = s := by
  have h1 : lstripWs s = s := by
    cases s with
    | nil => rfl
    | cons c cs => exact lstripWs_cons_of_not c cs (h.1 c cs rfl)
  have h2 : lstripWs s.reverse = s.reverse := by
    cases hr : s.reverse with
    | nil => rfl
    | cons c cs => exact lstripWs_cons_of_not c cs (h.2 c cs hr)
  simp [stripWs, rstripWs, h1, h2]

theorem stripped_stripWs (s : Str) : Stripped (stripWs s) := by
  unfold stripWs rstripWs
  have hsuf := lstripWs_suffix (lstripWs s).reverse
  obtain ⟨pre, hp⟩ := hsuf
  -- lstripWs s = r ++ pre.reverse where r is the result
  have hdecomp : lstripWs s = (lstripWs (lstripWs s).reverse).reverse ++ pre.reverse := by
    have := congrArg List.reverse hp
    simpa using this
  constructor
  · intro c cs hc
    rw [hc] at hdecomp
    exact lstripWs_head s c _ hdecomp
  · intro c cs hc
    rw [List.reverse_reverse] at hc
    exact lstripWs_head _ c cs hc

theorem stripWs_idem (s : Str) : stripWs (stripWs s) = stripWs s :=
  stripWs_of_stripped (stripped_stripWs s)

theorem stripWs_nil : stripWs [] = [] := rfl

/-- A string with a non-blank first and last character is its own `strip()`. -/
theorem stripped_of_head_last (c d : Char) (mid : Str) (hc : isPyWs c = false) (hd : isPyWs d = false) :
    Stripped (c :: (mid ++ [d])) := by
  constructor
  · intro x xs h
    simp only [List.cons.injEq] at h
    rw [← h.1]; exact hc
  · intro x xs h
    have h' : d :: (mid.reverse ++ [c]) = x :: xs := by simpa using h
    simp only [List.cons.injEq] at h'
    rw [← h'.1]; exact hd

/-! ## `endswith` / `startswith` facts -/

theorem endsWith_singleton_iff (s : Str) (c : Char) : endsWith s [c] = true ↔ ∃ x, s = x ++ [c] := by
  unfold endsWith
  constructor
  · intro h
    cases hr : s.reverse with
    | nil => rw [hr] at h; simp at h
    | cons d ds =>
      rw [hr] at h
      simp only [List.reverse_singleton, List.isPrefixOf_cons_cons, List.isPrefixOf_nil_left, Bool.and_true,
        beq_iff_eq] at h
      refine ⟨ds.reverse, ?_⟩
      have := congrArg List.reverse hr
      simp only [List.reverse_reverse, List.reverse_cons] at this
      rw [this, h]
  · rintro ⟨x, rfl⟩
    simp

theorem endsColon_iff (s : Str) : endsColon s = true ↔ ∃ x, s = x ++ [':'] := by
  unfold endsColon
  rw [Bool.and_eq_true, endsWith_singleton_iff]
  constructor
  · exact fun h => h.1
  · rintro ⟨x, rfl⟩
    refine ⟨⟨x, rfl⟩, ?_⟩
    simp [endsWith, List.isPrefixOf]

theorem endsStub_append (x : Str) : endsStub (x ++ kStubEnd) = true := by
  simp [endsStub, endsWith, kStubEnd, List.isPrefixOf]

theorem endsStub_colon (x : Str) : endsStub (x ++ [':']) = false := by
  simp [endsStub, endsWith, kStubEnd, List.isPrefixOf]

theorem endsColon_stub (x : Str) : endsColon (x ++ kStubEnd) = false := by
  simp [endsColon, endsWith, kStubEnd, List.isPrefixOf]

theorem startsWith_cons (c : Char) (s : Str) (d : Char) : startsWith (d :: s) [c] = (c == d) := by
  simp [startsWith, List.isPrefixOf]

/-! ## Splitting a well-formed signature -/

theorem wfParams_split (ls : List Str) (h : wfParams ls = true) :
    ∃ P C rest, ls = P ++ C :: rest ∧
      (∀ p ∈ P, endsColon (stripWs p) = false ∧ startsWith (stripWs p) [')'] = false) ∧
      endsColon (stripWs C) = true ∧ startsWith (stripWs C) [')'] = true ∧
      (parseSigClose (stripWs C)).isSome = true := by
  induction ls with
  | nil => simp [wfParams] at h
  | cons l ls ih =>
    unfold wfParams at h
    by_cases hc : endsColon (stripWs l) = true
    · simp only [hc, if_true, Bool.and_eq_true] at h
      exact ⟨[], l, ls, rfl, by simp, hc, h.1, h.2⟩
    · simp only [hc, Bool.false_eq_true, if_false, Bool.and_eq_true, Bool.not_eq_true'] at h
      obtain ⟨P, C, rest, rfl, hP, hC⟩ := ih h.2
      refine ⟨l :: P, C, rest, rfl, ?_, hC⟩
      intro p hp
      rcases List.mem_cons.1 hp with rfl | hp
      · exact ⟨by simpa using hc, h.1⟩
      · exact hP p hp

theorem protoGo_sig (acc P : List Str) (C : Str) (rest : List Str)
    (hP : ∀ p ∈ P, endsColon (stripWs p) = false) (hC : endsColon (stripWs C) = true) :
    protoGo (.sig acc) (P ++ C :: rest) = protoEmit (acc ++ P.map stripWs ++ [stripWs C]) := by
  induction P generalizing acc with
  | nil => simp [protoGo, hC]
  | cons p P ih =>
    have hp := hP p (by simp)
    simp only [List.cons_append, protoGo, hp, Bool.false_eq_true, if_false]
    rw [ih _ (fun q hq => hP q (List.mem_cons_of_mem _ hq))]
    simp

/-- The parameter lines folded by `sigParams` (already stripped). -/
def paramsFold : List SigParam → Bool → List Str → List SigParam × Bool
  | acc, kw, [] => (acc, kw)
  | acc, kw, s :: ss =>
    let p := dropTrailComma s
    if p == ['*'] then paramsFold acc true ss else paramsFold (parseSigParam kw p :: acc) kw ss

theorem sigParams_split (acc : List SigParam) (kw : Bool) (P : List Str) (C : Str) (rest : List Str)
    (hP : ∀ p ∈ P, startsWith (stripWs p) [')'] = false) (hC : startsWith (stripWs C) [')'] = true) :
    sigParams acc kw (P ++ C :: rest) =
      (parseSigClose (stripWs C)).map (fun r => ((paramsFold acc kw (P.map stripWs)).1.reverse, r)) := by
  induction P generalizing acc kw with
  | nil => simp [sigParams, hC, paramsFold]
  | cons p P ih =>
    have hp := hP p (by simp)
    have ih' := fun acc kw => ih acc kw (fun q hq => hP q (List.mem_cons_of_mem _ hq))
    simp only [List.cons_append, sigParams, hp, Bool.false_eq_true, if_false, List.map_cons, paramsFold]
    split <;> exact ih' _ _

/-! ## `returns_async_iterator(…)` -/

theorem isPrefixOf_append_singleton (p x : Str) (c : Char) (hc : c ∉ p) :
    p.isPrefixOf (x ++ [c]) = p.isPrefixOf x := by
  induction p generalizing x with
  | nil => simp
  | cons a p ih =>
    cases x with
    | nil =>
      have : (a == c) = false := by
        simp only [List.mem_cons, not_or] at hc
        simpa using fun e => hc.1 e.symm
      simp [List.isPrefixOf, this]
    | cons b x =>
      simp only [List.cons_append, List.isPrefixOf_cons_cons]
      rw [ih x (fun h => hc (List.mem_cons_of_mem _ h))]

/-- On a line `) -> R:` the decision is "`R` starts with `AsyncIterator[`". -/
theorem returnsAsyncIter_arrowLine (r : Str) :
    returnsAsyncIter (')' :: (kArrow ++ r ++ [':'])) = startsWith r kAsyncIteratorBr := by
  have hc : ':' ∉ kAsyncIteratorBr := by decide
  have hsw : startsWith (')' :: (kArrow ++ r ++ [':'])) kCloseArrow = true := by
    simp [startsWith, kArrow, kCloseArrow, List.isPrefixOf]
  have hdrop : (')' :: (kArrow ++ r ++ [':'])).drop kCloseArrow.length = r ++ [':'] := by
    simp [kArrow, kCloseArrow]
  unfold returnsAsyncIter
  simp only [kArrow, List.cons_append, List.nil_append] at hsw hdrop ⊢
  simp only [txtSplitAt1, hsw, if_true, hdrop]
  exact isPrefixOf_append_singleton kAsyncIteratorBr r ':' hc

/-! ## The closing line -/

theorem closeLine_shape (C : Str) (hc : endsColon C = true) (hp : startsWith C [')'] = true) :
    ∃ x, C = ')' :: (x ++ [':']) := by
  obtain ⟨y, rfl⟩ := (endsColon_iff C).1 hc
  cases y with
  | nil => simp [startsWith, List.isPrefixOf] at hp
  | cons c y =>
    simp only [List.cons_append, startsWith_cons, beq_iff_eq] at hp
    exact ⟨y, by rw [hp]; rfl⟩

theorem parseSigClose_stub (x : Str) :
    parseSigClose (')' :: (x ++ kStubEnd)) = parseSigClose (')' :: (x ++ [':'])) := by
  have h1 : (x ++ kStubEnd).take ((x ++ kStubEnd).length - 4) = x ++ [':'] := by
    simp [kStubEnd, List.take_append, List.take_of_length_le]
  simp only [parseSigClose, endsStub_append, if_true, h1, endsStub_colon, Bool.false_eq_true, if_false]

/-- Whether the return annotation IS `AsyncIterator[...]`. -/
def retIsAsyncIter : Option Str → Bool
  | some r => startsWith r kAsyncIteratorBr
  | none => false

theorem returnsAsyncIter_closeLine (x : Str) (r : Option Str) (h : parseSigClose (')' :: (x ++ [':'])) = some r) :
    returnsAsyncIter (')' :: (x ++ [':'])) = retIsAsyncIter r := by
  have hends : endsWith (x ++ [':']) [':'] = true := (endsWith_singleton_iff _ _).2 ⟨x, rfl⟩
  simp only [parseSigClose, endsStub_colon, Bool.false_eq_true, if_false, hends, if_true,
    List.dropLast_concat] at h
  by_cases hx : x.isEmpty = true
  · simp only [hx, if_true, Option.some.injEq] at h
    rw [← h]
    have : x = [] := by simpa using hx
    subst this; decide
  · simp only [hx, Bool.false_eq_true, if_false] at h
    by_cases ha : startsWith x kArrow = true
    · simp only [ha, if_true, Option.some.injEq] at h
      rw [← h]
      have hx' : x = kArrow ++ x.drop kArrow.length := by
        have := List.isPrefixOf_iff_prefix.1 ha
        exact (List.prefix_iff_eq_append.1 this).symm
      rw [retIsAsyncIter]
      conv => lhs; rw [hx']
      exact returnsAsyncIter_arrowLine _
    · simp [ha] at h

/-! ## The header line -/

theorem parseDefHeader_async (s : Str) (h : startsWith s kAsyncDef = true) :
    parseDefHeader s = (txtSplitAt1 ['('] (s.drop kAsyncDef.length)).map (fun p => (true, p.1, p.2)) := by
  simp [parseDefHeader, h]

theorem async_decomp (s : Str) (h : startsWith s kAsyncDef = true) : s = kAsyncDef ++ s.drop kAsyncDef.length :=
  (List.prefix_iff_eq_append.1 (List.isPrefixOf_iff_prefix.1 h)).symm

theorem parseDefHeader_dropAsync (s : Str) (h : startsWith s kAsyncDef = true) :
    parseDefHeader (kDef ++ s.drop kAsyncDef.length) =
      (parseDefHeader s).map (fun p => (false, p.2.1, p.2.2)) := by
  rw [parseDefHeader_async s h]
  have h1 : startsWith (kDef ++ s.drop kAsyncDef.length) kAsyncDef = false := by
    simp [startsWith, kDef, kAsyncDef, List.isPrefixOf]
  have h2 : startsWith (kDef ++ s.drop kAsyncDef.length) kDef = true := by
    simp [startsWith, kDef, List.isPrefixOf]
  have h3 : (kDef ++ s.drop kAsyncDef.length).drop kDef.length = s.drop kAsyncDef.length := by
    simp [kDef]
  simp only [parseDefHeader, h1, h2, h3, Bool.false_eq_true, if_false, if_true, Option.map_map]
  rfl

theorem isOvlLine_dropAsync (t : Str) : isOvlLine (kDef ++ t) = false := by
  simp [isOvlLine, startsWith, kDef, kOverload, List.isPrefixOf]

theorem txtSplitAt1_nil_paren : txtSplitAt1 ['('] [] = none := by
  simp [txtSplitAt1]

theorem txtSplitAt1_paren_ne_none (s : Str) (h : s.contains '(' = true) : txtSplitAt1 ['('] s ≠ none := by
  induction s with
  | nil => simp at h
  | cons c cs ih =>
    simp only [txtSplitAt1]
    by_cases hc : startsWith (c :: cs) ['('] = true
    · simp [hc]
    · simp only [hc, Bool.false_eq_true, if_false, ne_eq, Option.map_eq_none_iff]
      apply ih
      simp only [startsWith_cons, beq_iff_eq] at hc
      simp only [List.contains_cons, Bool.or_eq_true, beq_iff_eq] at h
      rcases h with h | h
      · exact absurd h hc
      · exact h

theorem stripped_dropAsync (s : Str) (hs : Stripped s) (h : startsWith s kAsyncDef = true)
    (hne : s.drop kAsyncDef.length ≠ []) : Stripped (kDef ++ s.drop kAsyncDef.length) := by
  constructor
  · intro c cs hc
    simp only [kDef, List.cons_append, List.cons.injEq] at hc
    rw [← hc.1]; decide
  · intro c cs hc
    have hd := async_decomp s h
    cases hr : (s.drop kAsyncDef.length).reverse with
    | nil => exact absurd (by simpa using hr) hne
    | cons d ds =>
      rw [List.reverse_append, hr] at hc
      simp only [List.cons_append, List.cons.injEq] at hc
      rw [← hc.1]
      apply hs.2 d (ds ++ kAsyncDef.reverse)
      conv => lhs; rw [hd]
      rw [List.reverse_append, hr]; rfl

/-! ## Signature of the emitted stub -/

theorem map_stripWs_of_stripped (P : List Str) (h : ∀ p ∈ P, Stripped p) : P.map stripWs = P := by
  induction P with
  | nil => rfl
  | cons p P ih =>
    simp only [List.map_cons]
    rw [stripWs_of_stripped (h p (by simp)), ih (fun q hq => h q (List.mem_cons_of_mem _ hq))]

theorem stripped_stubLine (x : Str) : Stripped (')' :: (x ++ kStubEnd)) := by
  have : ')' :: (x ++ kStubEnd) = ')' :: ((x ++ [':', ' ', '.', '.']) ++ ['.']) := by simp [kStubEnd]
  rw [this]
  exact stripped_of_head_last ')' '.' _ (by decide) (by decide)

/-- `sigGo` on a header line followed by stripped parameter lines, a closing line and anything. -/
theorem sigGo_header (s name : Str) (a : Bool) (P : List Str) (C : Str) (rest : List Str)
    (hs : Stripped s) (hov : isOvlLine s = false) (hdr : parseDefHeader s = some (a, name, []))
    (hP1 : ∀ p ∈ P, Stripped p) (hP2 : ∀ p ∈ P, startsWith p [')'] = false)
    (hC1 : Stripped C) (hC2 : startsWith C [')'] = true) :
    sigGo false (s :: P ++ C :: rest) =
      (parseSigClose C).map (fun r => ⟨a, name, (paramsFold [] false P).1.reverse, r, true⟩) := by
  have hP2' : ∀ p ∈ P, startsWith (stripWs p) [')'] = false := by
    intro p hp; rw [stripWs_of_stripped (hP1 p hp)]; exact hP2 p hp
  have hC2' : startsWith (stripWs C) [')'] = true := by rw [stripWs_of_stripped hC1]; exact hC2
  simp only [List.cons_append, sigGo, stripWs_of_stripped hs, hov, Bool.false_eq_true, if_false, hdr, sigAfterHeader,
    List.isEmpty_nil, if_true]
  rw [sigParams_split [] false P C rest hP2' hC2', stripWs_of_stripped hC1, map_stripWs_of_stripped P hP1]
  simp [Option.map_map, Function.comp_def]

theorem sigGo_protoEmit (s name : Str) (P : List Str) (x : Str)
    (hs : Stripped s) (hasync : startsWith s kAsyncDef = true) (hov : isOvlLine s = false)
    (hdr : parseDefHeader s = some (true, name, []))
    (hP1 : ∀ p ∈ P, Stripped p) (hP2 : ∀ p ∈ P, startsWith p [')'] = false) :
    sigGo false (protoEmit (s :: P ++ [')' :: (x ++ [':'])])) =
      (parseSigClose (')' :: (x ++ [':']))).map
        (fun r => ⟨!(retIsAsyncIter r), name, (paramsFold [] false P).1.reverse, r, true⟩) := by
  have hlast : (s :: P ++ [')' :: (x ++ [':'])]).getLast? = some (')' :: (x ++ [':'])) := by
    rw [← List.cons_append, List.getLast?_concat]
  have hinit : (s :: P ++ [')' :: (x ++ [':'])]).dropLast = s :: P := by
    rw [← List.cons_append, List.dropLast_concat]
  have hends : endsWith (')' :: (x ++ [':'])) [':'] = true :=
    (endsWith_singleton_iff _ _).2 ⟨')' :: x, rfl⟩
  have hdl : (')' :: (x ++ [':'])).dropLast = ')' :: x := by
    rw [← List.cons_append, List.dropLast_concat]
  have hne : s.drop kAsyncDef.length ≠ [] := by
    intro h0
    rw [parseDefHeader_async s hasync, h0, txtSplitAt1_nil_paren] at hdr
    simp at hdr
  unfold protoEmit
  simp only [hlast, Option.getD_some, hinit, hends, if_true, hdl, hasync, Bool.and_true]
  cases hpc : parseSigClose (')' :: (x ++ [':'])) with
  | none =>
    by_cases hg : returnsAsyncIter (')' :: (x ++ [':'])) = true
    · simp only [hg, if_true, List.cons_append]
      have := sigGo_header (kDef ++ s.drop kAsyncDef.length) name false P (')' :: (x ++ kStubEnd)) [[]]
        (stripped_dropAsync s hs hasync hne) (isOvlLine_dropAsync _)
        (by rw [parseDefHeader_dropAsync s hasync, hdr]; rfl) hP1 hP2 (stripped_stubLine x) (by simp [startsWith, List.isPrefixOf])
      simp only [List.cons_append] at this
      rw [this, parseSigClose_stub, hpc]; rfl
    · simp only [hg, Bool.false_eq_true, if_false, List.cons_append]
      have := sigGo_header s name true P (')' :: (x ++ kStubEnd)) [[]] hs hov hdr hP1 hP2 (stripped_stubLine x)
        (by simp [startsWith, List.isPrefixOf])
      simp only [List.cons_append] at this
      rw [this, parseSigClose_stub, hpc]; rfl
  | some r =>
    have hsub := returnsAsyncIter_closeLine x r hpc
    by_cases hg : returnsAsyncIter (')' :: (x ++ [':'])) = true
    · simp only [hg, if_true, List.cons_append]
      have := sigGo_header (kDef ++ s.drop kAsyncDef.length) name false P (')' :: (x ++ kStubEnd)) [[]]
        (stripped_dropAsync s hs hasync hne) (isOvlLine_dropAsync _)
        (by rw [parseDefHeader_dropAsync s hasync, hdr]; rfl) hP1 hP2 (stripped_stubLine x) (by simp [startsWith, List.isPrefixOf])
      simp only [List.cons_append] at this
      rw [this, parseSigClose_stub, hpc]
      rw [hg] at hsub
      simp [← hsub]
    · simp only [hg, Bool.false_eq_true, if_false, List.cons_append]
      have := sigGo_header s name true P (')' :: (x ++ kStubEnd)) [[]] hs hov hdr hP1 hP2 (stripped_stubLine x)
        (by simp [startsWith, List.isPrefixOf])
      simp only [List.cons_append] at this
      rw [this, parseSigClose_stub, hpc]
      have hg' : returnsAsyncIter (')' :: (x ++ [':'])) = false := by simpa using hg
      rw [hg'] at hsub
      simp [← hsub]

/-! ## `sigOf (protoStub m)` -/

/-- The documented convention: `async` is dropped when the return annotation is `AsyncIterator[...]`. -/
def adjAsync (sg : MethodSig) : MethodSig :=
  { sg with isAsync := sg.isAsync && !retIsAsyncIter sg.ret }

theorem sigGo_false_nil_cons (X : List Str) : sigGo false ([] :: X) = sigGo false X := by
  simp [sigGo, stripWs_nil, isOvlLine, startsWith, kOverload, parseDefHeader, kAsyncDef, kDef]

/-- What the WF branch at the header line provides. -/
theorem wf_header (s : Str) (ls : List Str) (ha : isAsyncHdr s = true)
    (h : (match parseDefHeader s with
      | some h => h.2.2.isEmpty && !endsColon s && wfParams ls
      | none => false) = true) :
    ∃ name, parseDefHeader s = some (true, name, []) ∧ endsColon s = false ∧ wfParams ls = true ∧
      startsWith s kAsyncDef = true := by
  have hasync : startsWith s kAsyncDef = true := by
    simp only [isAsyncHdr, Bool.and_eq_true] at ha; exact ha.1
  cases hp : parseDefHeader s with
  | none => rw [hp] at h; simp at h
  | some hd =>
    rw [hp] at h
    simp only [Bool.and_eq_true, Bool.not_eq_true', List.isEmpty_iff] at h
    obtain ⟨a, name, rest⟩ := hd
    have ha1 : a = true := by
      rw [parseDefHeader_async s hasync] at hp
      cases hsplit : txtSplitAt1 ['('] (s.drop kAsyncDef.length) with
      | none => rw [hsplit] at hp; simp at hp
      | some q =>
        rw [hsplit] at hp
        simp only [Option.map_some, Option.some.injEq, Prod.mk.injEq] at hp
        exact hp.1.symm
    simp only at h
    refine ⟨name, ?_, h.1.2, h.2, hasync⟩
    rw [ha1, h.1.1]

theorem proto_sig_go (m : List Str) : ∀ b : Bool, wfGo b m = true →
    sigGo b (protoGo (if b then .ovl else .scan) m) = (sigGo b m).map adjAsync := by
  induction m with
  | nil => intro b h; simp [wfGo] at h
  | cons l ls ih =>
    intro b h
    cases b with
    | true =>
      simp only [if_true]
      unfold wfGo at h
      by_cases he : endsStub (stripWs l) = true
      · simp only [he, if_true] at h
        have := ih false h
        simp only [Bool.false_eq_true, if_false] at this
        have e1 : ∀ X, sigGo true (stripWs l :: X) = sigGo false X := by
          intro X; simp only [sigGo, stripWs_idem, he, if_true]
        have e2 : sigGo true (l :: ls) = sigGo false ls := by simp only [sigGo, he, if_true]
        simp only [protoGo, he, if_true]
        rw [e1, sigGo_false_nil_cons, this, e2]
      · simp only [he, Bool.false_eq_true, if_false] at h
        have := ih true h
        simp only [if_true] at this
        simp only [protoGo, he, Bool.false_eq_true, if_false, sigGo, stripWs_idem, this]
    | false =>
      simp only [Bool.false_eq_true, if_false]
      unfold wfGo at h
      by_cases ho : isOvlLine (stripWs l) = true
      · simp only [ho, if_true] at h
        have := ih true h
        simp only [if_true] at this
        simp only [protoGo, ho, if_true, sigGo, stripWs_idem, this]
      · simp only [ho, Bool.false_eq_true, if_false] at h
        by_cases ha : isAsyncHdr (stripWs l) = true
        · simp only [ha, if_true] at h
          obtain ⟨name, hdr, hnc, hwp, hasync⟩ := wf_header (stripWs l) ls ha h
          obtain ⟨P, C, rest, rfl, hP, hC1, hC2, _⟩ := wfParams_split ls hwp
          obtain ⟨x, hx⟩ := closeLine_shape (stripWs C) hC1 hC2
          have ho' : isOvlLine (stripWs l) = false := by simpa using ho
          -- left: the emitted stub
          have hL : protoGo .scan (l :: (P ++ C :: rest)) =
              protoEmit (stripWs l :: P.map stripWs ++ [')' :: (x ++ [':'])]) := by
            simp only [protoGo, ho, Bool.false_eq_true, if_false, ha, if_true, hnc]
            rw [protoGo_sig [stripWs l] P C rest (fun p hp => (hP p hp).1) hC1, hx]
            simp
          rw [hL, sigGo_protoEmit (stripWs l) name (P.map stripWs) x (stripped_stripWs l) hasync ho' hdr
            (by intro p hp; obtain ⟨q, _, rfl⟩ := List.mem_map.1 hp; exact stripped_stripWs q)
            (by intro p hp; obtain ⟨q, hq, rfl⟩ := List.mem_map.1 hp; exact (hP q hq).2)]
          -- right: the original text
          have hR : sigGo false (l :: (P ++ C :: rest)) =
              (parseSigClose (stripWs C)).map
                (fun r => ⟨true, name, (paramsFold [] false (P.map stripWs)).1.reverse, r, true⟩) := by
            simp only [sigGo, ho, Bool.false_eq_true, if_false, hdr, sigAfterHeader, List.isEmpty_nil, if_true]
            rw [sigParams_split [] false P C rest (fun p hp => (hP p hp).2) hC2]
            simp [Option.map_map, Function.comp_def]
          rw [hR, hx]
          simp [Option.map_map, Function.comp_def, adjAsync]
        · simp only [ha, Bool.false_eq_true, if_false, Bool.and_eq_true, Option.isNone_iff_eq_none] at h
          have := ih false h.2
          simp only [Bool.false_eq_true, if_false] at this
          simp only [protoGo, ho, Bool.false_eq_true, if_false, ha, sigGo, h.1, this]

theorem wf_sigGo_some (m : List Str) : ∀ b : Bool, wfGo b m = true →
    ∃ sg, sigGo b m = some sg ∧ sg.isAsync = true ∧ sg.multiLine = true := by
  induction m with
  | nil => intro b h; simp [wfGo] at h
  | cons l ls ih =>
    intro b h
    cases b with
    | true =>
      unfold wfGo at h
      by_cases he : endsStub (stripWs l) = true
      · simp only [he, if_true] at h
        simp only [sigGo, he, if_true]; exact ih false h
      · simp only [he, Bool.false_eq_true, if_false] at h
        simp only [sigGo, he, Bool.false_eq_true, if_false]; exact ih true h
    | false =>
      unfold wfGo at h
      by_cases ho : isOvlLine (stripWs l) = true
      · simp only [ho, if_true] at h
        simp only [sigGo, ho, if_true]; exact ih true h
      · simp only [ho, Bool.false_eq_true, if_false] at h
        by_cases ha : isAsyncHdr (stripWs l) = true
        · simp only [ha, if_true] at h
          obtain ⟨name, hdr, hnc, hwp, hasync⟩ := wf_header (stripWs l) ls ha h
          obtain ⟨P, C, rest, rfl, hP, hC1, hC2, hC3⟩ := wfParams_split ls hwp
          simp only [sigGo, ho, Bool.false_eq_true, if_false, hdr, sigAfterHeader, List.isEmpty_nil, if_true]
          rw [sigParams_split [] false P C rest (fun p hp => (hP p hp).2) hC2]
          obtain ⟨r, hr⟩ := Option.isSome_iff_exists.1 hC3
          rw [hr]
          exact ⟨_, rfl, rfl, rfl⟩
        · simp only [ha, Bool.false_eq_true, if_false, Bool.and_eq_true, Option.isNone_iff_eq_none] at h
          simp only [sigGo, ho, Bool.false_eq_true, if_false, h.1]; exact ih false h.2

/-! ## The mock -/

theorem mockCollect_split (Q : List Str) (C : Str) (rest : List Str)
    (hQ : ∀ q ∈ Q, endsColon (stripWs q) = false) (hC : endsColon (stripWs C) = true) :
    mockCollect (Q ++ C :: rest) = (Q.map stripWs ++ [stripWs C], true) := by
  induction Q with
  | nil => simp [mockCollect, hC]
  | cons q Q ih =>
    have hq := hQ q (by simp)
    simp only [List.cons_append, mockCollect, hq, Bool.false_eq_true, if_false,
      ih (fun p hp => hQ p (List.mem_cons_of_mem _ hp)), List.map_cons]

theorem bodyAfterSig_split (Q : List Str) (C : Str) (rest : List Str)
    (hQ : ∀ q ∈ Q, endsColon (stripWs q) = false) (hC : endsColon (stripWs C) = true) :
    bodyAfterSig (Q ++ C :: rest) = rest := by
  induction Q with
  | nil => simp [bodyAfterSig, hC]
  | cons q Q ih =>
    have hq := hQ q (by simp)
    simp only [List.cons_append, bodyAfterSig, hq, Bool.false_eq_true, if_false,
      ih (fun p hp => hQ p (List.mem_cons_of_mem _ hp))]

/-- The stripped signature lines of the final `def` (`_transform_to_mock` passes the last one, the line closing the
    signature, to `returns_async_iterator`); `true` = inside an `@overload` block. -/
def sigLinesGo : Bool → List Str → List Str
  | _, [] => []
  | true, l :: ls => if endsStub (stripWs l) then sigLinesGo false ls else sigLinesGo true ls
  | false, l :: ls =>
    let s := stripWs l
    if isOvlLine s then sigLinesGo true ls
    else if (parseDefHeader s).isSome then (mockCollect (l :: ls)).1
    else sigLinesGo false ls

/-- `is_async_generator` of `_transform_to_mock` for a well-formed method text. -/
def mockYields (m : List Str) : Bool := returnsAsyncIter ((sigLinesGo false m).getLast?.getD [])

theorem bodyGo_false_nil_cons (X : List Str) : bodyGo false ([] :: X) = bodyGo false X := by
  simp [bodyGo, stripWs_nil, isOvlLine, startsWith, kOverload, parseDefHeader, kAsyncDef, kDef]

theorem isDefHdr_of_async (s : Str) (h : isAsyncHdr s = true) : (isAsyncHdr s || isDefHdr s) = true := by
  simp [h]

theorem mock_go (cls meth : Str) (m : List Str) : ∀ b : Bool, wfGo b m = true →
    sigGo b (mockGo cls meth (if b then .ovl else .scan) m) = sigGo b m ∧
    bodyGo b (mockGo cls meth (if b then .ovl else .scan) m) =
      mockBody cls meth (returnsAsyncIter ((sigLinesGo b m).getLast?.getD [])) := by
  induction m with
  | nil => intro b h; simp [wfGo] at h
  | cons l ls ih =>
    intro b h
    cases b with
    | true =>
      simp only [if_true]
      unfold wfGo at h
      by_cases he : endsStub (stripWs l) = true
      · simp only [he, if_true] at h
        have := ih false h
        simp only [Bool.false_eq_true, if_false] at this
        have e1 : ∀ X, sigGo true (stripWs l :: X) = sigGo false X := by
          intro X; simp only [sigGo, stripWs_idem, he, if_true]
        have e2 : sigGo true (l :: ls) = sigGo false ls := by simp only [sigGo, he, if_true]
        have e3 : ∀ X, bodyGo true (stripWs l :: X) = bodyGo false X := by
          intro X; simp only [bodyGo, stripWs_idem, he, if_true]
        have e4 : sigLinesGo true (l :: ls) = sigLinesGo false ls := by simp only [sigLinesGo, he, if_true]
        simp only [mockGo, he, if_true]
        rw [e1, sigGo_false_nil_cons, e2, e3, bodyGo_false_nil_cons, e4]
        exact this
      · simp only [he, Bool.false_eq_true, if_false] at h
        have := ih true h
        simp only [if_true] at this
        have e1 : ∀ X, sigGo true (stripWs l :: X) = sigGo true X := by
          intro X; simp only [sigGo, stripWs_idem, he, Bool.false_eq_true, if_false]
        have e2 : sigGo true (l :: ls) = sigGo true ls := by simp only [sigGo, he, Bool.false_eq_true, if_false]
        have e3 : ∀ X, bodyGo true (stripWs l :: X) = bodyGo true X := by
          intro X; simp only [bodyGo, stripWs_idem, he, Bool.false_eq_true, if_false]
        have e4 : sigLinesGo true (l :: ls) = sigLinesGo true ls := by
          simp only [sigLinesGo, he, Bool.false_eq_true, if_false]
        simp only [mockGo, he, Bool.false_eq_true, if_false]
        rw [e1, e2, e3, e4]
        exact this
    | false =>
      simp only [Bool.false_eq_true, if_false]
      unfold wfGo at h
      by_cases ho : isOvlLine (stripWs l) = true
      · simp only [ho, if_true] at h
        have := ih true h
        simp only [if_true] at this
        have e1 : ∀ X, sigGo false (stripWs l :: X) = sigGo true X := by
          intro X; simp only [sigGo, stripWs_idem, ho, if_true]
        have e2 : sigGo false (l :: ls) = sigGo true ls := by simp only [sigGo, ho, if_true]
        have e3 : ∀ X, bodyGo false (stripWs l :: X) = bodyGo true X := by
          intro X; simp only [bodyGo, stripWs_idem, ho, if_true]
        have e4 : sigLinesGo false (l :: ls) = sigLinesGo true ls := by simp only [sigLinesGo, ho, if_true]
        simp only [mockGo, ho, if_true]
        rw [e1, e2, e3, e4]
        exact this
      · simp only [ho, Bool.false_eq_true, if_false] at h
        by_cases ha : isAsyncHdr (stripWs l) = true
        · simp only [ha, if_true] at h
          obtain ⟨name, hdr, hnc, hwp, hasync⟩ := wf_header (stripWs l) ls ha h
          obtain ⟨P, C, rest, rfl, hP, hC1, hC2, _⟩ := wfParams_split ls hwp
          have ho' : isOvlLine (stripWs l) = false := by simpa using ho
          have hQ : ∀ q ∈ l :: P, endsColon (stripWs q) = false := by
            intro q hq
            rcases List.mem_cons.1 hq with rfl | hq
            · exact hnc
            · exact (hP q hq).1
          have hcol : mockCollect (l :: (P ++ C :: rest)) = (stripWs l :: P.map stripWs ++ [stripWs C], true) := by
            have := mockCollect_split (l :: P) C rest hQ hC1
            simpa using this
          have hlines : sigLinesGo false (l :: (P ++ C :: rest)) = stripWs l :: P.map stripWs ++ [stripWs C] := by
            simp only [sigLinesGo, ho, Bool.false_eq_true, if_false, hdr, Option.isSome_some, if_true, hcol]
          have hout : mockGo cls meth .scan (l :: (P ++ C :: rest)) =
              stripWs l :: (P.map stripWs ++ stripWs C ::
                mockBody cls meth (returnsAsyncIter ((stripWs l :: P.map stripWs ++ [stripWs C]).getLast?.getD []))) := by
            simp only [mockGo, ho, Bool.false_eq_true, if_false, ha, Bool.true_or, if_true, hcol, Bool.true_and]
            simp
          have hPs : ∀ p ∈ P.map stripWs, Stripped p := by
            intro p hp; obtain ⟨q, _, rfl⟩ := List.mem_map.1 hp; exact stripped_stripWs q
          have hPp : ∀ p ∈ P.map stripWs, startsWith p [')'] = false := by
            intro p hp; obtain ⟨q, hq, rfl⟩ := List.mem_map.1 hp; exact (hP q hq).2
          rw [hout, hlines]
          constructor
          · generalize mockBody cls meth (returnsAsyncIter ((stripWs l :: P.map stripWs ++ [stripWs C]).getLast?.getD [])) = B
            have hsg := sigGo_header (stripWs l) name true (P.map stripWs) (stripWs C) B
              (stripped_stripWs l) ho' hdr hPs hPp (stripped_stripWs C) hC2
            simp only [List.cons_append] at hsg
            rw [hsg]
            simp only [sigGo, ho, Bool.false_eq_true, if_false, hdr, sigAfterHeader, List.isEmpty_nil, if_true]
            rw [sigParams_split [] false P C rest (fun p hp => (hP p hp).2) hC2]
            simp [Option.map_map, Function.comp_def]
          · generalize mockBody cls meth (returnsAsyncIter ((stripWs l :: P.map stripWs ++ [stripWs C]).getLast?.getD [])) = B
            have hb : bodyGo false (stripWs l :: (P.map stripWs ++ stripWs C :: B)) =
                bodyAfterSig (stripWs l :: (P.map stripWs ++ stripWs C :: B)) := by
              simp only [bodyGo, stripWs_idem, ho, Bool.false_eq_true, if_false, hdr, Option.isSome_some, if_true]
            rw [hb]
            have := bodyAfterSig_split (stripWs l :: P.map stripWs) (stripWs C) B
              (by
                intro q hq
                rcases List.mem_cons.1 hq with rfl | hq
                · rw [stripWs_idem]; exact hnc
                · obtain ⟨p, hp, rfl⟩ := List.mem_map.1 hq
                  rw [stripWs_idem]; exact (hP p hp).1)
              (by rw [stripWs_idem]; exact hC1)
            simpa using this
        · simp only [ha, Bool.false_eq_true, if_false, Bool.and_eq_true, Option.isNone_iff_eq_none] at h
          have := ih false h.2
          simp only [Bool.false_eq_true, if_false] at this
          have hd : isDefHdr (stripWs l) = false := by
            cases hdd : isDefHdr (stripWs l) with
            | false => rfl
            | true =>
              exfalso
              simp only [isDefHdr, Bool.and_eq_true] at hdd
              have hna : startsWith (stripWs l) kAsyncDef = false := by
                have := async_decomp
                cases hsa : startsWith (stripWs l) kAsyncDef with
                | false => rfl
                | true =>
                  have hd2 := async_decomp _ hsa
                  rw [hd2] at hdd
                  simp [startsWith, kDef, kAsyncDef, List.isPrefixOf] at hdd
              have hp := h.1
              simp only [parseDefHeader, hna, Bool.false_eq_true, if_false, hdd.1, if_true, Option.map_eq_none_iff] at hp
              exact txtSplitAt1_paren_ne_none _ (by
                have hd3 : stripWs l = kDef ++ (stripWs l).drop kDef.length :=
                  (List.prefix_iff_eq_append.1 (List.isPrefixOf_iff_prefix.1 hdd.1)).symm
                have hc := hdd.2
                rw [hd3] at hc
                simpa [kDef] using hc) hp
          have e1 : sigGo false (l :: ls) = sigGo false ls := by
            simp only [sigGo, ho, Bool.false_eq_true, if_false, h.1]
          have e4 : sigLinesGo false (l :: ls) = sigLinesGo false ls := by
            simp only [sigLinesGo, ho, Bool.false_eq_true, if_false, h.1, Option.isSome_none]
          simp only [mockGo, ho, Bool.false_eq_true, if_false, ha, hd, Bool.or_false]
          rw [e1, e4]
          exact this

/-! ## The mock body yields exactly when the generator flag is set -/

theorem skipDocGo_skip (A : List Str) (l : Str) (T : List Str)
    (hA : A.all (fun a => !txtHasSub kTriple a) = true) (hl : txtHasSub kTriple l = true) :
    skipDocGo (A ++ l :: T) = T := by
  induction A with
  | nil => simp [skipDocGo, hl]
  | cons a A ih =>
    simp only [List.all_cons, Bool.and_eq_true, Bool.not_eq_true'] at hA
    simp only [List.cons_append, skipDocGo, hA.1, Bool.false_eq_true, if_false]
    exact ih hA.2

theorem lstripWs_indent4 (t : Str) : lstripWs (kIndent4 ++ t) = lstripWs t := by
  have : isPyWs ' ' = true := by decide
  simp [kIndent4, lstripWs, this]

theorem stripWs_indent4 (t : Str) (h : Stripped t) : stripWs (kIndent4 ++ t) = t := by
  have := stripWs_of_stripped h
  unfold stripWs at this ⊢
  rw [lstripWs_indent4]; exact this

theorem skipDoc_mockDoc (T : List Str) : skipDoc (mockDoc.map (kIndent4 ++ ·) ++ T) = T := by
  have hsplit : mockDoc.map (kIndent4 ++ ·) =
      (kIndent4 ++ kTriple) :: ((mockDoc.drop 1).dropLast.map (kIndent4 ++ ·) ++ [kIndent4 ++ kTriple]) := by decide
  rw [hsplit]
  have h0 : stripWs (kIndent4 ++ kTriple) = kTriple := by decide
  have h1 : startsWith kTriple kTriple = true := by decide
  have h2 : txtHasSub kTriple (kTriple.drop 3) = false := by decide
  simp only [List.cons_append, skipDoc, h0, h1, if_true, h2, Bool.false_eq_true, if_false, List.append_assoc]
  exact skipDocGo_skip _ _ _ (by decide) (by decide)

theorem mockRaise_shape (cls meth : Str) : ∃ mid, mockRaise cls meth = 'r' :: (mid ++ [')']) := by
  have h1 : "raise NotImplementedError(\"".toList = 'r' :: "raise NotImplementedError(\"".toList.tail := by decide
  have h2 : "() not implemented. Override this method in your test subclass.\")".toList =
      "() not implemented. Override this method in your test subclass.\")".toList.dropLast ++ [')'] := by decide
  refine ⟨"raise NotImplementedError(\"".toList.tail ++ cls ++ ['.'] ++ meth ++
    "() not implemented. Override this method in your test subclass.\")".toList.dropLast, ?_⟩
  unfold mockRaise
  rw [h2]
  conv => lhs; rw [h1]
  simp

theorem isYieldLine_mockRaise (cls meth : Str) : isYieldLine (kIndent4 ++ mockRaise cls meth) = false := by
  obtain ⟨mid, h⟩ := mockRaise_shape cls meth
  rw [h]
  unfold isYieldLine
  rw [stripWs_indent4 _ (stripped_of_head_last 'r' ')' mid (by decide) (by decide))]
  simp [kYield, startsWith, List.isPrefixOf]

theorem mockBody_yields (cls meth : Str) (g : Bool) :
    (skipDoc (mockBody cls meth g)).any isYieldLine = g := by
  unfold mockBody
  rw [List.map_append, List.map_append, List.append_assoc, skipDoc_mockDoc]
  have hy : isYieldLine (kIndent4 ++ mockYield) = true := by decide
  cases g <;> simp [isYieldLine_mockRaise, hy]

/-- Both transformers take the same decision on a well-formed method text: the mock's `is_async_generator` is
    "the return annotation `sigOf` reads is `AsyncIterator[...]`" — the Protocol stub's criterion (`adjAsync`). -/
theorem wf_mockYields (m : List Str) : ∀ b : Bool, wfGo b m = true →
    ∃ sg, sigGo b m = some sg ∧ returnsAsyncIter ((sigLinesGo b m).getLast?.getD []) = retIsAsyncIter sg.ret := by
  induction m with
  | nil => intro b h; simp [wfGo] at h
  | cons l ls ih =>
    intro b h
    cases b with
    | true =>
      unfold wfGo at h
      by_cases he : endsStub (stripWs l) = true
      · simp only [he, if_true] at h
        simp only [sigGo, sigLinesGo, he, if_true]; exact ih false h
      · simp only [he, Bool.false_eq_true, if_false] at h
        simp only [sigGo, sigLinesGo, he, Bool.false_eq_true, if_false]; exact ih true h
    | false =>
      unfold wfGo at h
      by_cases ho : isOvlLine (stripWs l) = true
      · simp only [ho, if_true] at h
        simp only [sigGo, sigLinesGo, ho, if_true]; exact ih true h
      · simp only [ho, Bool.false_eq_true, if_false] at h
        by_cases ha : isAsyncHdr (stripWs l) = true
        · simp only [ha, if_true] at h
          obtain ⟨name, hdr, hnc, hwp, hasync⟩ := wf_header (stripWs l) ls ha h
          obtain ⟨P, C, rest, rfl, hP, hC1, hC2, hC3⟩ := wfParams_split ls hwp
          obtain ⟨x, hx⟩ := closeLine_shape (stripWs C) hC1 hC2
          have hQ : ∀ q ∈ l :: P, endsColon (stripWs q) = false := by
            intro q hq
            rcases List.mem_cons.1 hq with rfl | hq
            · exact hnc
            · exact (hP q hq).1
          have hcol : mockCollect (l :: (P ++ C :: rest)) = (stripWs l :: P.map stripWs ++ [stripWs C], true) := by
            have := mockCollect_split (l :: P) C rest hQ hC1
            simpa using this
          have hlines : sigLinesGo false (l :: (P ++ C :: rest)) = stripWs l :: P.map stripWs ++ [stripWs C] := by
            simp only [sigLinesGo, ho, Bool.false_eq_true, if_false, hdr, Option.isSome_some, if_true, hcol]
          have hlast : (stripWs l :: P.map stripWs ++ [stripWs C]).getLast? = some (stripWs C) := by
            exact List.getLast?_concat
          obtain ⟨r, hr⟩ := Option.isSome_iff_exists.1 hC3
          refine ⟨⟨true, name, (paramsFold [] false (P.map stripWs)).1.reverse, r, true⟩, ?_, ?_⟩
          · simp only [sigGo, ho, Bool.false_eq_true, if_false, hdr, sigAfterHeader, List.isEmpty_nil, if_true]
            rw [sigParams_split [] false P C rest (fun p hp => (hP p hp).2) hC2, hr]
            rfl
          · rw [hlines, hlast, Option.getD_some, hx]
            exact returnsAsyncIter_closeLine x r (hx ▸ hr)
        · simp only [ha, Bool.false_eq_true, if_false, Bool.and_eq_true, Option.isNone_iff_eq_none] at h
          simp only [sigGo, sigLinesGo, ho, Bool.false_eq_true, if_false, h.1]; exact ih false h.2

end Pog
