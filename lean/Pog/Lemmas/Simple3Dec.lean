import Pog.Lemmas.ParserFaithful3
import Pog.Lemmas.Simple2Dec
/-
  `Simple3` as a decision procedure (see Pog/Lemmas/Simple2Dec.lean for the role it plays in the correspondence
  harness): the driver evaluates `inFragment3`, and `inFragment3_sound` (Pog/Props/C02c.lean) is the theorem that a
  `true` answer implies the conclusion of `parse_faithful_partial3` for exactly the `buildSchemas maxDepth fuel decls`
  the driver then runs.
-/
namespace Pog.Prs
open Pog Pog.Trk

theorem simple3_iff (decls : Decls) (rank : Str → Nat) :
    Simple3 decls rank ↔
      ((decls.map (·.1)).Nodup ∧
       (∀ d ∈ decls, simpleNode3 (decls.map (·.1)) d.2 = true) ∧
       (∀ d ∈ decls, d.1 ≠ [] ∧ sanClass d.1 = d.1) ∧
       (∀ d ∈ decls, nodeCostOK3 rank (rank d.1) d.2 = true) ∧
       (∀ d ∈ decls, ∀ c ∈ ctxs3 d.1 d.2, c ∉ decls.map (·.1) ∧ sanClass c = c) ∧
       (∀ d ∈ decls, (ctxs3 d.1 d.2).Nodup) ∧
       (∀ d ∈ decls, ∀ d' ∈ decls, ∀ c ∈ ctxs3 d.1 d.2, c ∈ ctxs3 d'.1 d'.2 → d.1 = d'.1)) :=
  ⟨fun h => ⟨h.nodup, h.node, h.name, h.cost, h.ctxFresh, h.ctxNodup, h.ctxInj⟩,
   fun ⟨a, b, c, d, e, f, g⟩ => ⟨a, b, c, d, e, f, g⟩⟩

instance (decls : Decls) (rank : Str → Nat) : Decidable (Simple3 decls rank) :=
  decidable_of_iff _ (simple3_iff decls rank).symm

/-- the hypotheses of `parse_faithful_partial3` for `buildSchemas maxDepth fuel decls`, decided -/
def inFragment3 (maxDepth fuel : Nat) (decls : Decls) (rs : List (Str × Nat)) : Bool :=
  decide (Simple3 decls (rankOf rs)) &&
  decls.all (fun d => decide (rankOf rs d.1 + 1 < fuel)) &&
  decls.all (fun d => decide (rankOf rs d.1 + 1 ≤ maxDepth))

/-! ### evaluating `Faithful` in the kernel

  `specFuel` sums `Node.size`, which is compiled by well-founded recursion at an `allOf` node and does not reduce in
  the kernel; `decide +kernel` on `Faithful` therefore gets stuck on documents with `allOf` as soon as `shape` needs
  more than a few levels.  `FaithfulF F` is `Faithful` with the fuel of the denotation given explicitly
  (`faithful_iff_F`: definitionally the same at `F = specFuel decls`); the fuel of a concrete document is computed by
  `simp` with the equations of `Node.size`. -/

def specFieldsF (F : Nat) (decls : Decls) (n : Str) : List Field :=
  match dGet n decls with
  | none => []
  | some nd =>
    let r := shape decls F [n] nd
    r.1.map (fun kv => ⟨kv.1, r.2.contains kv.1, kv.2⟩)

def FaithfulF (F : Nat) (decls : Decls) (s : PSt) (n : Str) : Prop :=
  ∃ fs, modelFields decls s n = some fs ∧
    (∀ id, s.lookup n = some id → (s.get id).kind = .full) ∧
    (∀ f, f ∈ fs ↔ f ∈ specFieldsF F decls n)

theorem faithful_iff_F (decls : Decls) (s : PSt) (n : Str) :
    Faithful decls s n ↔ FaithfulF (specFuel decls) decls s n := Iff.rfl

instance (F : Nat) (decls : Decls) (s : PSt) (n : Str) : Decidable (FaithfulF F decls s n) :=
  match h : modelFields decls s n with
  | none => isFalse (by rintro ⟨fs, h1, _⟩; rw [h] at h1; cases h1)
  | some fs =>
    if h2 : (∀ id, s.lookup n = some id → (s.get id).kind = .full) ∧
        (∀ f ∈ fs, f ∈ specFieldsF F decls n) ∧ (∀ f ∈ specFieldsF F decls n, f ∈ fs) then
      isTrue ⟨fs, h, h2.1, fun f => ⟨h2.2.1 f, h2.2.2 f⟩⟩
    else
      isFalse (by
        rintro ⟨fs', h1, h3, h4⟩
        rw [h] at h1
        cases h1
        exact h2 ⟨h3, fun f hf => (h4 f).mp hf, fun f hf => (h4 f).mpr hf⟩)

end Pog.Prs
