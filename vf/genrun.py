"""Run the real generator in THIS (fresh) interpreter: python -m vf.genrun JOB.json
job: {"spec": path, "root": dir, "package", "core", "strategy", "force", "warm": optional spec path generated first into root+"-warm"}
prints {"ok", "error", "tree": {relpath: sha256}}"""
from __future__ import annotations

import json
import sys
from pathlib import Path

from . import common, e2e


def main():
    job = json.loads(open(sys.argv[1]).read())
    common.scratch()
    common.use_repo_src()
    if job.get("warm"):
        e2e.generate(None, Path(job["root"] + "-warm"), package="warm.pkg", spec_path=Path(job["warm"]))
    g = e2e.generate(None, Path(job["root"]), package=job["package"], core=job.get("core"), strategy=job.get("strategy", "operationId"),
                     force=job.get("force", True), spec_path=Path(job["spec"]))
    top = job["package"].split(".")[0]
    tree = {}
    for t in {top, (job.get("core") or job["package"]).split(".")[0]}:
        tree.update({f"{t}/{k}": v for k, v in e2e.tree_hashes(Path(job["root"]) / t).items()})
    sys.stdout.write(json.dumps({"ok": g["ok"], "error": g["error"], "tree": tree}))


if __name__ == "__main__":
    main()
