import Pog.Props.C02b
import Pog.Lemmas.ParserFaithful3
import Pog.Lemmas.Simple3Dec
/-
  C02 / C19, third partial fragment.  `Simple3 ⊇ Simple2` (Pog/Lemmas/ParserFaithful3a.lean) adds

    * ACYCLIC `allOf` INHERITANCE: a declared schema `{allOf: [m₁, …, mₖ], required?}` (no own `properties`) whose members
      are `$ref`s to declared schemas of the fragment (objects, other `allOf` children, …) or INLINE OBJECT members
      `{type: object, properties, required}` with properties that are plain primitives, `$ref`s or arrays of either;
      the model has the first-wins merge of the members' fields and the union of the required names, exactly what
      `specFields` says (`_process_all_of`);
    * INLINE OBJECT properties `{type: object, properties: {plain primitive | $ref | array of either}}` – promoted to
      the registered schema `<Parent><Prop>`, the property is a reference holder (kind `.obj` on both sides);
    * ENUM primitives: as a property (parsed and REGISTERED under `mapCtx parent key` = `<Parent><Prop>`, the
      property is a reference holder that reads as the primitive) and as a declared schema;
    * ENUM items of an array / enum values of a map (anonymous, never registered);
    * `nullable: true` around every property node, around the items node of an array and the value node of a map.

  NOT in `Simple3` (left out, see the report): own `properties` of an `allOf` schema (the model parses them under the
  names `<Child>.<prop>`; a primitive one ends COMPLETED in the tracker but unregistered, which the step invariant
  of the proof does not allow) – the model is evaluated on such a document below;
  inline objects nested in inline objects or in `allOf` members; `nullable` around a declared schema node.

    simple2_imp_simple3                full     `Simple2 ⊆ Simple3`
    simple3_strict                     (theorem) a document in `Simple3` that is not in `Simple2`
    parse_faithful_partial3            partial  on `Simple3`: no out-of-fuel, no RuntimeError, every declared name `Faithful`
    parse_perm_invariant_partial3      partial  on `Simple3` every re-ordering of the declarations gives the same models (C19)
    inFragment3_sound                  full     the decision procedure `inFragment3` implies the conclusion for the run
    ✗ parse_faithful_enum_ctx_shared_counterexample   why `Simple3.ctxInj` is needed (NEW FINDING): the promoted enums of
                                                `Order.itemKind` and `OrderItem.kind` are both `OrderItemKind`; the second
                                                property silently gets the FIRST enum (string instead of integer)
    ✗ parse_faithful_enum_ctx_dup_counterexample      why `Simple3.ctxNodup` is needed: the same inside ONE schema (`ab` / `Ab`)
    ✗ parse_faithful_enum_ctx_declared_counterexample why `Simple3.ctxFresh` is needed for enums: a declared `OrderStatus`
                                                is shadowed by the promoted enum of `Order.status`
    ✗ parse_faithful_enum_depth_counterexample        why an enum / inline-object property costs a level (`propCostOK3`)

  Side conditions of `Simple3` (all decidable, `inFragment3`):
    cost      (`nodeCostOK3 rank (rank n)`) for the owner `n`:  `$ref t` property: `rank t + 1 ≤ rank n`;
              array / map of a leaf: `leafCost + 1 ≤ rank n` (`leafCost ($ref t) = rank t + 2`, primitive `0`);
              enum property: `1 ≤ rank n`; inline object property: `1 ≤ rank n` and `innerCost p + 1 ≤ rank n` for each
              of its properties (`innerCost ($ref t) = rank t + 1`, array `leafCost + 1`, primitive `0`);
              declared array: `leafCost ≤ rank n`; `allOf` member `$ref t`: `rank t + 2 ≤ rank n`; inline `allOf` member:
              `1 ≤ rank n` and `innerCost p + 1 ≤ rank n`.
    ctxFresh  every context name (`ctxs3`: `mapCtx owner key` for maps and enums, `owner ++ sanClass key` for inline
              objects) is undeclared and class-cased
    ctxNodup  the context names of one schema are pairwise different
    ctxInj    a context name belongs to one schema only
-/
namespace Pog.C02c
open Pog Pog.Prs Pog.Trk Pog.C02 Pog.C02b

/-- `Simple2 ⊆ Simple3` (same `rank`). -/
theorem simple2_imp_simple3 (decls : Decls) (rank : Str → Nat) (hS : Simple2 decls rank) : Simple3 decls rank :=
  hS.toSimple3

/-- `parse_faithful_partial3`.  On the fragment `Simple3 decls rank` (see the header), with `rank n + 1 ≤ maxDepth`
    and the fuel, loading succeeds and EVERY declared name is `Faithful`. -/
theorem parse_faithful_partial3 (decls : Decls) (rank : Str → Nat) (hS : Simple3 decls rank) (maxDepth F : Nat)
    (hF : ∀ d ∈ decls, rank d.1 < F) (hD : ∀ d ∈ decls, rank d.1 + 1 ≤ maxDepth) :
    (buildSchemas maxDepth (F + 1) decls).oom = false ∧
    missing decls (buildSchemas maxDepth (F + 1) decls) = [] ∧
    ∀ d ∈ decls, Faithful decls (buildSchemas maxDepth (F + 1) decls) d.1 :=
  buildSchemas_faithful3 decls rank hS maxDepth F hF hD

/-- `parse_perm_invariant_partial3` (C19): on `Simple3` the declaration order is irrelevant. -/
theorem parse_perm_invariant_partial3 (d d' : Decls) (rank : Str → Nat) (hp : d.Perm d') (hS : Simple3 d rank)
    (maxDepth F : Nat) (hF : ∀ x ∈ d, rank x.1 < F) (hD : ∀ x ∈ d, rank x.1 + 1 ≤ maxDepth) :
    missing d (buildSchemas maxDepth (F + 1) d) = [] ∧ missing d' (buildSchemas maxDepth (F + 1) d') = [] ∧
    ∀ x ∈ d, ∃ fs fs', modelFields d (buildSchemas maxDepth (F + 1) d) x.1 = some fs ∧
      modelFields d' (buildSchemas maxDepth (F + 1) d') x.1 = some fs' ∧ ∀ f, f ∈ fs ↔ f ∈ fs' := by
  have h1 := parse_faithful_partial3 d rank hS maxDepth F hF hD
  have h2 := parse_faithful_partial3 d' rank (hS.perm hp) maxDepth F
    (fun x hx => hF x (hp.mem_iff.mpr hx)) (fun x hx => hD x (hp.mem_iff.mpr hx))
  refine ⟨h1.2.1, h2.2.1, fun x hx => ?_⟩
  exact C19.parse_perm_invariant_of_faithful d d' hp hS.nodup _ _ x.1 (h1.2.2 x hx) (h2.2.2 x (hp.mem_iff.mp hx))

/-- `inFragment3_sound`: when the driver's `inFragment3 maxDepth fuel decls ranks` answers `true`, the run
    `buildSchemas maxDepth fuel decls` neither runs out of fuel nor raises, and every declared name is `Faithful`. -/
theorem inFragment3_sound (maxDepth fuel : Nat) (decls : Decls) (rs : List (Str × Nat))
    (h : inFragment3 maxDepth fuel decls rs = true) :
    (buildSchemas maxDepth fuel decls).oom = false ∧
    missing decls (buildSchemas maxDepth fuel decls) = [] ∧
    ∀ d ∈ decls, Faithful decls (buildSchemas maxDepth fuel decls) d.1 := by
  unfold inFragment3 at h
  simp only [Bool.and_eq_true, decide_eq_true_eq, List.all_eq_true] at h
  obtain ⟨⟨hS, hF⟩, hD⟩ := h
  cases fuel with
  | zero => cases decls with
    | nil => exact ⟨rfl, rfl, fun d hd => by cases hd⟩
    | cons d ds => exact absurd (hF d (List.mem_cons_self ..)) (by omega)
  | succ F =>
    exact parse_faithful_partial3 decls (rankOf rs) hS maxDepth F
      (fun d hd => by have := hF d hd; omega) hD

/-- everything `inFragment2` accepts, `inFragment3` accepts -/
theorem inFragment2_imp_inFragment3 (maxDepth fuel : Nat) (decls : Decls) (rs : List (Str × Nat))
    (h : inFragment2 maxDepth fuel decls rs = true) : inFragment3 maxDepth fuel decls rs = true := by
  unfold inFragment2 at h
  unfold inFragment3
  simp only [Bool.and_eq_true, decide_eq_true_eq] at h ⊢
  exact ⟨⟨h.1.1.toSimple3, h.1.2⟩, h.2⟩

/-! ### non-vacuity -/

def cInl (ps : List (String × Node)) (req : List String) : Node :=
  .obj (some (ps.map (fun kv => (kv.1.toList, kv.2)))) (req.map String.toList) none

/-- a pet-store document using every new node kind: an `allOf` child of an object (`Pet`), an `allOf` child of an
    `allOf` child (`Dog`), inline `allOf` members with primitive / array / `$ref` properties, an enum schema (`Color`),
    an enum property, an array of enums, a map of enums, an inline object property with a `$ref`, a primitive and an array
    inside, `nullable` around a primitive, a `$ref`, an array, a map, the items of an array and inside an inline object -/
def petDecls : Decls :=
  [("Base".toList, cInl [("id", .prim .integer false)] ["id"]),
   ("Color".toList, .prim .string true),
   ("Pet".toList, .allOf [cRef "Base",
        cInl [("name", .prim .string false), ("tags", .arr (.prim .string false)), ("color", cRef "Color")] ["name"]] [] []),
   ("Dog".toList, .allOf [cRef "Pet", cInl [("bark", .nullable (.prim .integer false))] []] [] ["bark".toList]),
   ("Order".toList, cInl [("id", .prim .integer false),
        ("status", .prim .string true),
        ("shipTo", cInl [("street", .prim .string false), ("pet", cRef "Dog"),
                         ("lines", .arr (.nullable (.prim .string false)))] ["street"]),
        ("note", .nullable (.prim .string false)),
        ("pet", .nullable (cRef "Pet")),
        ("tags", .nullable (.arr (.prim .string false))),
        ("meta", .nullable (cMap (.prim .string false))),
        ("dogs", .arr (.nullable (cRef "Dog"))),
        ("flags", .arr (.prim .string true)),
        ("byKind", cMap (.prim .integer true)),
        ("color", cRef "Color")] ["id", "shipTo"])]

def petRank (n : Str) : Nat :=
  if n = "Order".toList then 7 else if n = "Dog".toList then 4 else if n = "Pet".toList then 2 else 0

/-- the document is in `Simple3` … -/
theorem petDecls_simple3 : Simple3 petDecls petRank ∧ (∀ d ∈ petDecls, petRank d.1 < 8) ∧
    (∀ d ∈ petDecls, petRank d.1 + 1 ≤ 150) :=
  ⟨⟨by decide +kernel, by decide +kernel, by decide +kernel, by decide +kernel, by decide +kernel, by decide +kernel,
    by decide +kernel⟩, by decide, by decide⟩

/-- … and not in `Simple2` (whatever the rank) -/
theorem simple3_strict : ∀ rank, ¬ Simple2 petDecls rank := by
  intro rank h
  have := h.node ("Color".toList, _) (List.mem_cons_of_mem _ (List.mem_cons_self ..))
  revert this
  decide

/-- the fuel of the denotation on the example document (`Node.size` does not reduce in the kernel at `allOf`, see
    Pog/Lemmas/Simple3Dec.lean) -/
theorem petFuel : specFuel petDecls = 16 := by
  simp [specFuel, petDecls, Node.size, cInl, cRef, cMap]

theorem petFuel_rev : specFuel petDecls.reverse = 16 := by
  rw [← specFuel_perm (List.reverse_perm petDecls).symm, petFuel]

/-- the model evaluated on it (what `parse_faithful_partial3` proves for it, here checked by evaluation): no error … -/
example : let s := buildSchemas 150 9 petDecls
    s.oom = false ∧ missing petDecls s = [] ∧
    modelFields petDecls s "Dog".toList = some
      [⟨"id".toList, true, .prim .integer⟩, ⟨"name".toList, true, .prim .string⟩,
       ⟨"tags".toList, false, .arr (.prim .string)⟩, ⟨"color".toList, false, .ref "Color".toList⟩,
       ⟨"bark".toList, true, .prim .integer⟩] ∧
    modelFields petDecls s "Order".toList = some
      [⟨"id".toList, true, .prim .integer⟩, ⟨"status".toList, false, .prim .string⟩,
       ⟨"shipTo".toList, true, .obj⟩, ⟨"note".toList, false, .prim .string⟩,
       ⟨"pet".toList, false, .ref "Pet".toList⟩, ⟨"tags".toList, false, .arr (.prim .string)⟩,
       ⟨"meta".toList, false, .obj⟩, ⟨"dogs".toList, false, .arr (.ref "Dog".toList)⟩,
       ⟨"flags".toList, false, .arr (.prim .string)⟩, ⟨"byKind".toList, false, .obj⟩,
       ⟨"color".toList, false, .ref "Color".toList⟩] := by
  decide +kernel

/-- … and every schema is `Faithful` (evaluated) -/
example : ∀ d ∈ petDecls, Faithful petDecls (buildSchemas 150 9 petDecls) d.1 := by
  simp only [faithful_iff_F, petFuel]
  decide +kernel

/-- the same by the theorem -/
example : ∀ d ∈ petDecls, Faithful petDecls (buildSchemas 150 9 petDecls) d.1 :=
  (parse_faithful_partial3 petDecls petRank petDecls_simple3.1 150 8 petDecls_simple3.2.1 petDecls_simple3.2.2).2.2

/-- declared in the opposite order (children before their parents) -/
example : ∀ d ∈ petDecls, Faithful petDecls.reverse (buildSchemas 150 9 petDecls.reverse) d.1 := by
  simp only [faithful_iff_F, petFuel_rev]
  decide +kernel

/-- the decision procedure accepts the example document (and rejects it at a depth limit that is too small) -/
example : inFragment3 150 9 petDecls (petDecls.map (fun d => (d.1, petRank d.1))) = true := by decide +kernel
example : inFragment3 7 9 petDecls (petDecls.map (fun d => (d.1, petRank d.1))) = false := by decide +kernel
/-- the `Simple2` example document is accepted as well -/
example : inFragment3 150 6 invDecls (invDecls.map (fun d => (d.1, invRank d.1))) = true := by decide +kernel

/-- NOT covered by the theorem, evaluated only: own `properties` of an `allOf` schema (a primitive, an enum, an inline
    object, a `$ref`) – the model is faithful on this document, the decision procedure rejects it -/
def ownDecls : Decls :=
  [("Base".toList, cInl [("id", .prim .integer false)] ["id"]),
   ("Child".toList, .allOf [cRef "Base"]
      [("name".toList, .prim .string false), ("e".toList, .prim .string true),
       ("o".toList, cInl [("s", .prim .string false)] []), ("b".toList, cRef "Base")] ["name".toList])]

theorem ownFuel : specFuel ownDecls = 7 := by
  simp [specFuel, ownDecls, Node.size, cInl, cRef]

example : (∀ x ∈ ownDecls, Faithful ownDecls (buildSchemas 150 30 ownDecls) x.1) ∧
    inFragment3 150 30 ownDecls [("Child".toList, 2)] = false := by
  simp only [faithful_iff_F, ownFuel]
  decide +kernel

/-! ### why the side conditions are there -/

/-- ✗ `Simple3.ctxInj` — NEW FINDING (synthetic names collide with EACH OTHER).  An enum property is promoted to a
    schema named `<Parent><Prop>` and registered under that name; `Order.itemKind` and `OrderItem.kind` both give
    `OrderItemKind`.  The second `_parse_schema("OrderItemKind", …)` finds the name COMPLETED and returns the
    registered object: `OrderItem.kind` (an INTEGER enum) silently becomes the STRING enum of `Order.itemKind`.
    (Real loader, same document: both properties have `type = "OrderItemKind"`, one schema `OrderItemKind` of type
    string with the values of the first enum.) -/
theorem parse_faithful_enum_ctx_shared_counterexample :
    let d : Decls := [("Order".toList, cObj [("itemKind", .prim .string true)]),
                      ("OrderItem".toList, cObj [("kind", .prim .integer true)])]
    let s := buildSchemas 150 30 d
    s.oom = false ∧ missing d s = [] ∧
    Faithful d s "Order".toList ∧
    modelFields d s "OrderItem".toList = some [⟨"kind".toList, false, .prim .string⟩] ∧
    specFields d "OrderItem".toList = [⟨"kind".toList, false, .prim .integer⟩] ∧
    ¬ Faithful d s "OrderItem".toList ∧
    -- in the opposite order the OTHER schema is wrong
    Faithful d.reverse (buildSchemas 150 30 d.reverse) "OrderItem".toList ∧
    ¬ Faithful d.reverse (buildSchemas 150 30 d.reverse) "Order".toList := by
  decide +kernel

/-- ✗ `Simple3.ctxNodup`: the same collision inside one schema (keys `ab` and `Ab` are both promoted to `OrderAb`). -/
theorem parse_faithful_enum_ctx_dup_counterexample :
    let d : Decls := [("Order".toList, cObj [("ab", .prim .string true), ("Ab", .prim .integer true)])]
    let s := buildSchemas 150 30 d
    s.oom = false ∧ missing d s = [] ∧
    modelFields d s "Order".toList = some [⟨"ab".toList, false, .prim .string⟩, ⟨"Ab".toList, false, .prim .string⟩] ∧
    ¬ Faithful d s "Order".toList := by
  decide +kernel

/-- ✗ `Simple3.ctxFresh` for enums: the promoted enum of `Order.status` is REGISTERED as `OrderStatus`; a declared
    schema of that name is then skipped by `build_schemas` (same defect class as
    `C02.parse_faithful_inline_named_like_schema_counterexample`, F37, reached through an enum). -/
theorem parse_faithful_enum_ctx_declared_counterexample :
    let d : Decls := [("Order".toList, cObj [("status", .prim .string true)]),
                      ("OrderStatus".toList, cObj [("code", .prim .integer false)])]
    let s := buildSchemas 150 30 d
    s.oom = false ∧ missing d s = [] ∧
    modelFields d s "OrderStatus".toList = some [] ∧
    ¬ Faithful d s "OrderStatus".toList ∧
    modelFields d s "Order".toList = some [⟨"status".toList, false, .ref "OrderStatus".toList⟩] ∧
    ¬ Faithful d s "Order".toList := by
  decide +kernel

/-- ✗ `propCostOK3`: an enum property (and an inline object property) is a NAMED `_parse_schema` call and is subject to
    the depth test; at `PYOPENAPI_MAX_DEPTH = 1` it is a depth placeholder. -/
theorem parse_faithful_enum_depth_counterexample :
    let de : Decls := [("Order".toList, cObj [("status", .prim .string true)])]
    let di : Decls := [("Order".toList, cObj [("addr", cInl [("street", .prim .string false)] [])])]
    ¬ Faithful de (buildSchemas 1 30 de) "Order".toList ∧
    modelFields de (buildSchemas 1 30 de) "Order".toList = some [⟨"status".toList, false, .ref "OrderStatus".toList⟩] ∧
    Faithful de (buildSchemas 2 30 de) "Order".toList ∧
    ¬ Faithful di (buildSchemas 1 30 di) "Order".toList ∧
    Faithful di (buildSchemas 2 30 di) "Order".toList := by
  decide +kernel

end Pog.C02c
