"""C07 — every operation is reachable exactly once per tag; none silently dropped.

proof  : Pog.Props.C07 (operation parsing, id derivation per strategy) + C20's de-duplication theorems + C13's tag-map theorems
tie    : vf.corr.c07 (real loader vs model), vf.corr names/fresh (C20)
oracle : (a) vf.corr.c07.oracle on the real loader; (b) end to end: generated package imported in a fresh interpreter, public
         coroutine methods of every *Client class counted against (path, method, tags) of the input, for JSON and YAML
         renderings and the three naming strategies; every tag client reachable as a property of APIClient.
"""
from __future__ import annotations

import json
import re

from .. import e2e, findings
from ..common import Run, rng
from ..gen import spec as gs
from . import _generic as g

PROP = "C07"
CLASSES = {"int-status-key-drops-operation": "F16", "yaml-int-status-key": "F16"}


def case_fn(case: dict, d):
    """The document is generated under every strategy of case["strategies"], in that order, IN ONE PROCESS (a generation must not
    depend on what the process generated before); the first entry is the case's own strategy."""
    out = {}
    for strat in case.get("strategies") or [case["strategy"]]:
        root = d / f"proj-{strat}"
        gen = e2e.generate(case["doc"], root, package="pkg.client", strategy=strat, fmt=case["fmt"])
        if not gen["ok"]:
            out[strat] = {"gen_ok": False, "gen_error": gen["error"]}
            continue
        pr = e2e.probe(root, "pkg.client", None, ["surface"])
        out[strat] = {"gen_ok": True, "probe": pr, "warnings": gen.get("warnings", [])}
    first = out[(case.get("strategies") or [case["strategy"]])[0]]
    return {**first, "by_strategy": out}


def doc_to_mpaths(doc: dict) -> list:
    """The document in the encoding of the Lean `Ops` model (vf.corr.c07)."""
    mp = []
    for p, item in (doc.get("paths") or {}).items():
        mitem = []
        for k, op in item.items():
            if not isinstance(op, dict):
                mitem.append([k, {}])
                continue
            mop = {"operationId": op.get("operationId")}
            if "tags" in op:
                mop["tags"] = op["tags"]
            if "responses" in op:
                mop["responses"] = [{"s": c} if isinstance(c, str) else {"i": c} for c in op["responses"]]
            mitem.append([k, mop])
        mp.append([p, mitem])
    return mp


def predicted_names(cases: list[dict]) -> dict:
    """(case id, strategy) -> sorted list of sorted method-name sets, one per tag client, as the Lean model `clients` derives them
    (parseOps -> id per strategy -> global de-duplication, twice on the force path -> grouping by tag key)."""
    from ..corr import c07 as cc
    from ..lean import DRIVER_BIN
    reqs, keys = [], []
    for c in cases:
        for s in c.get("strategies") or [c["strategy"]]:
            reqs.append({"f": "clients", "a": [s, False, doc_to_mpaths(c["doc"])]})   # one emit pass (F19 repaired)
            keys.append((c["id"], s))
    res = cc._driver_batch(str(DRIVER_BIN), reqs)
    out = {}
    for k, m in zip(keys, res):
        out[k] = sorted(sorted(set(x[1])) for x in m) if isinstance(m, list) else None
    return out


def norm_key(tag: str) -> str:
    return re.sub(r"[\W_]+", "", tag).lower()


def expected_groups(doc: dict) -> dict[str, int]:
    """normalised tag key -> number of operations that must be callable on that tag's client."""
    out: dict[str, int] = {}
    for p, item in (doc.get("paths") or {}).items():
        for m, op in item.items():
            if m in ("get", "put", "post", "delete", "options", "head", "patch", "trace") and isinstance(op, dict):
                for k in {norm_key(t) for t in (op.get("tags") or ["default"])}:
                    out[k] = out.get(k, 0) + 1
    return out


def judge(case: dict, res: dict) -> list[tuple[str, str]]:
    if not res.get("gen_ok"):
        return []   # generation failed visibly: allowed by the property
    pr = res["probe"]
    sf = pr.get("surface") if isinstance(pr, dict) else None
    if not isinstance(sf, dict) or "clients" not in sf:
        return [("probe", f"surface probe failed: {json.dumps(pr)[:300]}")]
    if sf.get("errors"):
        # the package does not import: C01's business unless nothing else is wrong; report as its own class
        return [("does-not-import", json.dumps(sf["errors"])[:300])]
    exp = expected_groups(case["doc"])
    fails = []
    got_total = 0
    per_client = {}
    for cname, info in sf["clients"].items():
        meths = {n: s for n, s in info["methods"].items() if s.get("kind") in ("coroutine", "asyncgen")}
        per_client[cname] = meths
        got_total += len(meths)
    want_total = sum(exp.values())
    if got_total != want_total:
        fails.append(("method-count", f"{got_total} operation methods on {len(per_client)} tag clients, the document has {want_total} (operation, tag-group) pairs: "
                      f"clients={ {c: sorted(m) for c, m in per_client.items()} } expected groups={exp}"))
    if len(per_client) != len(exp):
        fails.append(("client-count", f"{len(per_client)} tag clients for {len(exp)} tag groups {sorted(exp)}: {sorted(per_client)}"))
    # every tag client is reachable from APIClient
    props = set(sf.get("api_client", {}))
    if len(props) != len(per_client):
        fails.append(("apiclient-properties", f"APIClient exposes {sorted(props)} for clients {sorted(per_client)}"))
    reach = sf.get("api_client_reach") or {}
    import keyword
    for pn, got in reach.items():
        if isinstance(got, str) and got.startswith("ERROR"):
            fails.append(("apiclient-unreachable", f"APIClient{'' if pn == '<construct>' else '.' + pn}: {got}"))
        elif got not in per_client:
            fails.append(("apiclient-unreachable", f"APIClient.{pn} is a {got}, not one of the tag clients {sorted(per_client)}"))
        if pn != "<construct>" and (not pn.isidentifier() or keyword.iskeyword(pn)):
            fails.append(("apiclient-property-name", f"APIClient property {pn!r} is not a usable identifier"))
    if reach and "<construct>" not in reach and len(set(reach.values())) != len(reach):
        fails.append(("apiclient-unreachable", f"two APIClient properties yield the same client class: {reach}"))
    for cname, meths in per_client.items():
        for n in meths:
            if not n.isidentifier():
                fails.append(("method-name", f"{cname}.{n!r} is not an identifier"))
    pred = case.get("predicted")
    if pred is not None:
        got = sorted(sorted(m) for m in per_client.values())
        if got != pred:
            fails.append(("method-names-not-by-strategy", f"strategy {case['strategy']}: method names per tag client {got} differ from the names the "
                          f"selected strategy derives {pred}"))
    return fails


def attribute(case: dict, cls: str, msg: str) -> str | None:
    if case.get("int_status_keys"):
        return "F16"   # every operation with an integer status key is dropped with a warning (an empty client may then not even import)
    return None   # (F17 - colliding ids ending under one method name - is repaired: a wrong method count is a violation)


def to_int_status_keys(doc: dict) -> dict:
    d = json.loads(json.dumps(doc))
    for p, item in d["paths"].items():
        for m, op in item.items():
            if isinstance(op, dict) and "responses" in op:
                op["responses"] = {(int(k) if str(k).isdigit() else k): v for k, v in op["responses"].items()}
    return d


FORMER_F64_TAGS = ["request", "close", "transport", "base-url", "self"]


def former_f64_doc(i: int = 0) -> dict:
    """A generated document whose operations carry the tags that used to collide with APIClient's own members (F64, repaired):
    every one of them must be a working property of APIClient (`request_`, `close_`, `transport_`, `base_url_`, `self_`)."""
    k = 0
    while True:
        r = rng(f"C07:former-F64:{i}:{k}")
        doc = gs.gen_spec(r, gs.Opts(mainstream=True, max_ops=8, multi_tags=False, always_opid=True, streaming=False))
        ops = [op for it in doc["paths"].values() for m, op in it.items() if m != "parameters" and isinstance(op, dict)]
        if len(ops) >= len(FORMER_F64_TAGS):
            break
        k += 1
    for j, op in enumerate(ops):
        op["tags"] = [FORMER_F64_TAGS[(j + i) % len(FORMER_F64_TAGS)]]
    return doc


def build_cases(ctx) -> list[dict]:
    cases = []
    # the former witnesses of F64 (repaired), under the three strategies
    for i in range(ctx.budget(2, 8)):
        cases.append({"id": f"c07-former-F64-{i}", "doc": former_f64_doc(i), "strategy": "operationId", "strategies": ["operationId", "clean", "path"],
                      "fmt": ["json", "yaml"][i % 2], "dup_ids": False, "int_status_keys": False})
    n = ctx.budget(30, 300)
    for i in range(n):
        r = rng(f"C07:{i}")
        dup = i % 5 == 4
        o = gs.Opts(mainstream=True, max_ops=6, multi_tags=True, tag_variants=False, dup_opids=dup, always_opid=(i % 3 != 0), streaming=False)
        doc = gs.gen_spec(r, o)
        fmt = ["json", "yaml", "yaml-flow", "yaml-merge"][i % 4]
        strategies = ["operationId", "clean", "path"]
        r.shuffle(strategies)
        cases.append({"id": f"c07-{i}", "doc": doc, "strategy": strategies[0], "strategies": strategies, "fmt": fmt, "dup_ids": dup, "int_status_keys": False})
    # the YAML rendering with unquoted numeric status keys: yaml.safe_dump of int keys
    for i in range(ctx.budget(4, 24)):
        r = rng(f"C07:intkeys:{i}")
        doc = gs.gen_spec(r, gs.Opts(mainstream=True, max_ops=4, always_opid=True, streaming=False))
        cases.append({"id": f"c07-int-{i}", "doc": to_int_status_keys(doc), "strategy": "operationId", "fmt": "yaml", "dup_ids": False, "int_status_keys": True})
    return cases


def check(run: Run, ctx) -> None:
    known = findings.Known(run, PROP)
    for mod, name in (("vf.corr.c07", "Ops (operation parsing, id derivation)"),):
        try:
            g.run_corr(run, ctx, mod, name, quick=0.5, thorough=5.0)
            g.run_oracle(run, ctx, known, mod, "C07 on the real loader", CLASSES, quick=0.4, thorough=4.0)
        except ModuleNotFoundError:
            run.notes.append(f"{mod} not present yet")
    g.run_corr(run, ctx, "vf.corr.client", "ClientGen (APIClient properties per tag group vs Pog.ClientGen)", quick=0.3, thorough=3.0)
    # F64 (a tag named like one of APIClient's own members) is repaired: the classes property-shadowed-by-method, tag-client-unreachable,
    # property-named-like-instance-attribute, api-client-construction-fails, private-attr-collision, duplicate-property-name and
    # mock-client-self-argument map to no finding - a recurrence is a violation (the oracle keeps generating those tags).
    # The `-nonascii` classes are what is left of them: collisions BETWEEN two tag clients that only non-ASCII tags produce (`aé`/`a`,
    # `ké`/`_K`; attributed by the tags involved in the collision).  They are reported as a new finding by the F64 work package and are
    # listed as F68.
    g.run_oracle(run, ctx, g.Informational(known), "vf.corr.client", "client.py / mock_client.py skeletons on the real ClientVisitor / MocksEmitter",
                 {k: (v if v.startswith("-") or v == "F68" else '-' + v) for k, v in {"mock-groups-by-first-raw-tag": "F23", "mock-client-props-order": "F23", "mock-client-props-differ": "F23", "mock-tag-case-variants-collide": "F23",
                  "mock-client-duplicate-argument": "F23", "mock-client-empty-init": "F31", "property-name-not-identifier": "F29", "client-syntax-error": "F29",
                  "mock-client-syntax-error": "F29", "duplicate-property-name-nonascii": "F68", "private-attr-collision-nonascii": "F68",
                  "api-client-construction-fails-nonascii": "F68", "tag-client-unreachable-nonascii": "F68", "mock-client-duplicate-property-name": "F68"}.items()}, quick=0.5, thorough=4.0)
    run.cov["rule"] = (run.cov.get("rule") or "") + ("[e2e] random documents (0-3 tags per operation, absent / duplicated / FastAPI-style operationIds) x {JSON, YAML block, YAML flow, "
                       "YAML with merge keys (<<: *anchor), YAML with unquoted integer status keys} x the 3 naming strategies generated one after the other in ONE process "
                       "(random order) -> each generated package imported in a fresh interpreter -> coroutine methods per tag client counted against the document's "
                       "(operation, tag group) pairs AND the method names per client compared with the names the Lean model `clients` derives for the selected strategy; distinct by document hash; non-trivial when >= 2 operations")
    cases0 = build_cases(ctx)
    results0 = e2e.run_cases("vf.props.C07:case_fn", cases0)
    try:
        pred = predicted_names(cases0)
    except Exception as e:  # the driver is unavailable: the name oracle is skipped, the counting oracle still runs
        run.notes.append(f"method-name prediction skipped: {type(e).__name__}: {e}")
        pred = {}
    # one judged case per (document, strategy): the strategies of a document were generated one after the other in one process
    cases, results = [], []
    for case, res in zip(cases0, results0):
        if "infra_error" in res or "by_strategy" not in res:
            cases.append(case)
            results.append(res)
            continue
        for pos, strat in enumerate(case.get("strategies") or [case["strategy"]]):
            c2 = {**case, "strategy": strat, "position_in_process": pos}
            c2["predicted"] = pred.get((case["id"], strat))   # also for colliding ids (F17 repaired: the suffixes are the model's)
            cases.append(c2)
            results.append(res["by_strategy"][strat])
    for case, res in zip(cases, results):
        if "infra_error" in res:
            run.infra_errors.append(res["infra_error"])
            continue
        nops = sum(expected_groups(case["doc"]).values())
        run.count({"doc": case["doc"], "s": case["strategy"], "f": case["fmt"]}, nontrivial=nops >= 2)
        run.cov["traces_validated_against_impl"] += 1
        run.dist("rendering", case["fmt"] + ("+int-status-keys" if case["int_status_keys"] else ""))
        run.dist("strategy", case["strategy"])
        if not res.get("gen_ok"):
            run.dist("generation", "rejected (visible failure)")
            continue
        fails = judge(case, res)
        if not fails:
            run.sample({"id": case["id"], "strategy": case["strategy"], "fmt": case["fmt"], "groups": expected_groups(case["doc"])}, limit=4)
        for cls, msg in fails:
            fid = attribute(case, cls, msg)
            if fid and known.listed(fid):
                known.hit(fid, {"id": case["id"], "class": cls, "msg": msg[:300]})
            elif len(run.violations) < 5:
                run.violation("input", {k: case.get(k) for k in ("doc", "strategy", "strategies", "fmt", "dup_ids", "int_status_keys", "predicted")}, observed=msg,
                              expected="one coroutine method per (operation, tag group), every tag client a property of APIClient", what=f"{cls}: {msg[:300]}")
    known.replay_witnesses(lambda fid, w: None)   # no open finding of C07 carries a stored witness
    known.report_unreplayed()


def search(run: Run, ctx) -> None:
    check(run, ctx)


def replay(run: Run, ctx, rec) -> bool:
    case = rec["case"]
    if "module" in case:
        return g.replay_generic(rec)
    case = {"id": "replay", **case}
    res = e2e.run_cases("vf.props.C07:case_fn", [case], workers=1)[0]
    if "by_strategy" in res and case.get("strategy") in res["by_strategy"]:
        res = res["by_strategy"][case["strategy"]]
    return bool(judge(case, res))
