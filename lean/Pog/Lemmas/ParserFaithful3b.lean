import Pog.Lemmas.ParserFaithful3a
/-
  Lemmas about M-parser, part 6b: contracts of the callback on `Simple3` and `parseStep` on the leaves
  (anonymous `$ref`, anonymous array, named map / enum context objects).
-/
namespace Pog.Prs
open Pog Pog.Trk

/-! ### `nullable` is never looked at -/

def CoreInv (P : PFn) : Prop := ∀ name node allow s, P name node allow s = P name node.core allow s

theorem body_core (decls : Decls) (P : PFn) (name : Option Str) (node : Node) (allow : Bool) (s : PSt) :
    body decls P name node allow s = body decls P name node.core allow s := by
  unfold body
  rw [core_core]

theorem parseStep_coreInv (decls : Decls) (P : PFn) : CoreInv (parseStep decls P) := by
  intro name node allow s
  unfold parseStep parseCore bodyAndExit
  simp only [body_core decls P name node]

theorem parse_coreInv (decls : Decls) : ∀ f, CoreInv (parse decls f)
  | 0 => fun _ _ _ _ => rfl
  | f + 1 => parseStep_coreInv decls (parse decls f)

/-! ### contracts of the callback -/

/-- contract on an anonymous primitive, plain or enum: one fresh object, nothing else changes -/
def PrimSpecE (P : PFn) : Prop := ∀ (ty : PrimTy) (e : Bool) (s : PSt),
  (P none (.prim ty e) true s).1 = s.heap.length ∧
  (P none (.prim ty e) true s).2.heap = s.heap ++ [{ type := some ty.str, hasEnum := e }] ∧
  (P none (.prim ty e) true s).2.reg = s.reg ∧
  (P none (.prim ty e) true s).2.oom = s.oom ∧
  TrSame s.tr (P none (.prim ty e) true s).2.tr

theorem parseStep_primSpecE (decls : Decls) (P : PFn) : PrimSpecE (parseStep decls P) := by
  intro ty e s
  simp [parseStep, parseCore, PSt.doEnter, Trk.enter, bodyAndExit, body, Node.core, finish, PSt.doExit,
    Trk.exit, truthy, mkIR, PSt.alloc, TrSame]

theorem PrimSpecE.toPrim {P : PFn} (h : PrimSpecE P) : PrimSpec P := fun ty s => h ty false s

def Pre3 (decls : Decls) (rank : Str → Nat) (s : PSt) (n : Str) : Prop :=
  WF3 decls rank s ∧ TK3 decls rank s (rank n + 1) ∧ s.regHas n = false ∧ s.tr.depth + rank n + 1 ≤ s.tr.maxDepth

def Post3 (decls : Decls) (rank : Str → Nat) (s : PSt) (n : Str) (q : Nat × PSt) : Prop :=
  Step s q.2 ∧ Own3 decls [] s q.2 ∧ WF3 decls rank q.2 ∧ dGet n q.2.reg = some q.1

/-- result of parsing an anonymous property node: a fresh object that denotes the kind -/
def AnonPost3 (decls : Decls) (rank : Str → Nat) (s : PSt) (q : Nat × PSt) (K : Kind) : Prop :=
  Step s q.2 ∧ Own3 decls [] s q.2 ∧ WF3 decls rank q.2 ∧ Denotes (decls.map (·.1)) q.2 K q.1 ∧ s.heap.length ≤ q.1

def SpecP3 (decls : Decls) (rank : Str → Nat) (P : PFn) (r : Nat) : Prop :=
  ∀ n nd s, dGet n decls = some nd → rank n < r → Pre3 decls rank s n → Post3 decls rank s n (P (some n) nd true s)

def RefSpec3 (decls : Decls) (rank : Str → Nat) (P : PFn) (r : Nat) : Prop :=
  ∀ t nd s R, dGet t decls = some nd → t.contains '/' = false → t ≠ [] → rank t + 1 < r → rank t < R →
    s.tr.depth + rank t + 2 ≤ s.tr.maxDepth → WF3 decls rank s → TK3 decls rank s R →
    Post3 decls rank s t (P none (.ref t) true s)

def ArrSpec3 (decls : Decls) (rank : Str → Nat) (P : PFn) (r : Nat) : Prop :=
  ∀ i s R, leaf3 (decls.map (·.1)) i = true → leafCost3 rank i < r → leafCost3 rank i ≤ R →
    s.tr.depth + leafCost3 rank i + 1 ≤ s.tr.maxDepth → WF3 decls rank s → TK3 decls rank s R →
    AnonPost3 decls rank s (P none (.arr i) true s) (.arr (nodeKind i))

/-- what a NAMED call under a context name delivers: a registered full object of type `ty` -/
def CtxPost3 (decls : Decls) (rank : Str → Nat) (c : Str) (s : PSt) (q : Nat × PSt) (ty : Str) (e : Bool) : Prop :=
  Step s q.2 ∧ Own3 decls [c] s q.2 ∧ WF3 decls rank q.2 ∧ dGet c q.2.reg = some q.1 ∧ q.1 < q.2.heap.length ∧
  (q.2.get q.1).name = some c ∧ (q.2.get q.1).kind = .full ∧ (q.2.get q.1).refersTo = none ∧
  (q.2.get q.1).type = some ty ∧ (q.2.get q.1).hasEnum = e

/-- the state in which a context name may be entered -/
def CtxPre3 (decls : Decls) (rank : Str → Nat) (c : Str) (s : PSt) (R : Nat) : Prop :=
  c ∉ decls.map (·.1) ∧ sanClass c = c ∧ c ≠ [] ∧ WF3 decls rank s ∧ TK3 decls rank s R ∧
  dGet c s.tr.states = none ∧ (∀ d ∈ decls, c ∈ ctxs3 d.1 d.2 → dGet d.1 s.tr.states ≠ none)

def MapSpec3 (decls : Decls) (rank : Str → Nat) (P : PFn) (r : Nat) : Prop :=
  ∀ c a req s R, CtxPre3 decls rank c s R → leaf3 (decls.map (·.1)) a = true →
    leafCost3 rank a < r → leafCost3 rank a ≤ R → s.tr.depth + leafCost3 rank a + 1 ≤ s.tr.maxDepth →
    CtxPost3 decls rank c s (P (some c) (.obj none req (some a)) true s) sObject false

def EnumSpec3 (decls : Decls) (rank : Str → Nat) (P : PFn) : Prop :=
  ∀ c ty s R, CtxPre3 decls rank c s R → s.tr.depth + 1 ≤ s.tr.maxDepth →
    CtxPost3 decls rank c s (P (some c) (.prim ty true) true s) ty.str true

/-! ### `parseStep` on the leaves -/

theorem sanClass_of_declared3 (decls : Decls) (rank : Str → Nat) (hS : Simple3 decls rank) (m : Str)
    (hm : m ∈ decls.map (·.1)) : sanClass m = m := by
  obtain ⟨d, hd, rfl⟩ := List.mem_map.mp hm
  exact (hS.name d hd).2

/-- `_resolve_ref` on a declared target -/
theorem resolveRef_spec3 (decls : Decls) (rank : Str → Nat) (P : PFn) (r : Nat) (hP : SpecP3 decls rank P r)
    (t : Str) (nd : Node) (s : PSt) (hw : WF3 decls rank s) (hk : TK3 decls rank s (rank t + 1))
    (ht : dGet t decls = some nd) (hno : t.contains '/' = false) (hne : t ≠ []) (hr : rank t < r)
    (hd : s.tr.depth + rank t + 1 ≤ s.tr.maxDepth) :
    Post3 decls rank s t (resolveRef decls P t true s) := by
  unfold resolveRef
  have hemp : t.isEmpty = false := by
    cases t with
    | nil => exact absurd rfl hne
    | cons c cs => rfl
  simp only [lastSeg_of_no_slash t hno, hemp, Bool.false_eq_true, if_false]
  cases hg : dGet t s.reg with
  | some id =>
    obtain ⟨_, hm⟩ := hw.1 t id hg
    obtain ⟨_, _, _, _, _, hfull, _⟩ := hm (mem_names_of_dGet decls t nd ht)
    have hdm : (s.get id).depthMarker = false := (kind_full_flags hfull).1
    simp only [hdm, Bool.not_false, if_true]
    exact ⟨Step.refl s, Own3.of_states_eq rfl, hw, hg⟩
  | none =>
    simp only [ht]
    exact hP t nd s ht hr ⟨hw, hk, by unfold PSt.regHas dHas; rw [hg]; rfl, hd⟩

theorem parseStep_refSpec3 (decls : Decls) (rank : Str → Nat) (P : PFn) (r : Nat) (hP : SpecP3 decls rank P r) :
    RefSpec3 decls rank (parseStep decls P) (r + 1) := by
  intro t nd s R ht hno hne hr hR hd hw hk
  rw [parseStep_anon_eq]
  have hb : body decls P none (.ref t) true (anonIn s) = resolveRef decls P t true (anonIn s) := by
    simp [body, Node.core]
  rw [hb]
  have hd' : (anonIn s).tr.depth + rank t + 1 ≤ (anonIn s).tr.maxDepth := by
    show s.tr.depth + 1 + rank t + 1 ≤ s.tr.maxDepth
    omega
  obtain ⟨h1, h2, h3, h4⟩ := resolveRef_spec3 decls rank P r hP t nd (anonIn s) hw.anonIn
    (TK3.anti hk.anonIn (by omega)) ht hno hne (by omega) hd'
  exact ⟨step_anon h1, own_anon3 h2, h3.anonOut, h4⟩


/-! ### an anonymous array node -/

theorem parseItems_leaf3 (names : List Str) (P : PFn) (hC : CoreInv P) (name : Option Str) (i : Node) (s : PSt)
    (h : leaf3 names i = true) : parseItems P name i true s = P none i.core true s := by
  unfold leaf3 at h
  rcases leafOK_cases _ i.core h with ⟨ty, en, e⟩ | ⟨t, e, _⟩
  · simp [parseItems, itemName, Node.isRef, Node.isPrim, e, Node.isObjType]
    rw [hC none i true s, e]
  · simp [parseItems, itemName, Node.isRef, Node.isPrim, e, Node.isObjType]
    rw [hC none i true s, e]

theorem body_arr_eq3 (decls : Decls) (P : PFn) (hC : CoreInv P) (i : Node) (s : PSt)
    (h : leaf3 (decls.map (·.1)) i = true) :
    body decls P none (.arr i) true s =
      (let qa := P none i.core true s
       let a := qa.2.alloc { type := some sArray, items := some qa.1 }
       let qc := P none i.core true a.2
       (a.1, qc.2.modify a.1 (fun o => { o with items := some qc.1 }))) := by
  simp [body, Node.core, truthy, parseItems_leaf3 _ P hC none i _ h, mkIR, finish]

theorem parseStep_arrSpec3 (decls : Decls) (rank : Str → Nat) (P : PFn) (r : Nat) (hS : Simple3 decls rank) (hC : CoreInv P)
    (hPrim : PrimSpecE P) (hHit : RefHit P) (hRef : RefSpec3 decls rank P r) :
    ArrSpec3 decls rank (parseStep decls P) (r + 1) := by
  intro i s R hi hr hR hd hw hk
  rw [parseStep_anon_eq, body_arr_eq3 decls P hC i _ hi, ← nodeKind_core i]
  unfold leafCost3 at hr hR hd
  unfold leaf3 at hi
  generalize i.core = i at *
  simp only []
  rcases leafOK_cases _ i hi with ⟨ty, en, e⟩ | ⟨t, e, hmem, hno, hne⟩
  · -- primitive items: three fresh objects, the first item is orphaned
    subst e
    obtain ⟨a1, a2, a3, a4, a5⟩ := hPrim ty en (anonIn s)
    generalize P none (.prim ty en) true (anonIn s) = qa at a1 a2 a3 a4 a5 ⊢
    obtain ⟨qai, qas⟩ := qa
    simp only at a1 a2 a3 a4 a5 ⊢
    subst a1
    generalize hal : qas.alloc { type := some sArray, items := some (anonIn s).heap.length } = al
    have hal1 : al.1 = s.heap.length + 1 := by rw [← hal]; show qas.heap.length = _; rw [a2]; simp [anonIn]
    have hal2 : al.2.heap = s.heap ++ [{ type := some ty.str, hasEnum := en },
        { type := some sArray, items := some s.heap.length }] := by
      rw [← hal]; show qas.heap ++ _ = _; rw [a2]; simp [anonIn]
    have halr : al.2.reg = s.reg := by rw [← hal]; exact a3
    have halo : al.2.oom = s.oom := by rw [← hal]; exact a4
    have halt : TrSame (anonIn s).tr al.2.tr := by rw [← hal]; exact a5
    obtain ⟨c1, c2, c3, c4, c5⟩ := hPrim ty en al.2
    generalize P none (.prim ty en) true al.2 = qc at c1 c2 c3 c4 c5 ⊢
    obtain ⟨qci, qcs⟩ := qc
    simp only at c1 c2 c3 c4 c5 ⊢
    subst c1
    have hlen : al.2.heap.length = s.heap.length + 2 := by rw [hal2]; simp
    generalize hsd : qcs.modify al.1 (fun o => { o with items := some al.2.heap.length }) = sd
    have hsdh : sd.heap = s.heap ++ [{ type := some ty.str, hasEnum := en },
        { type := some sArray, items := some (s.heap.length + 2) }, { type := some ty.str, hasEnum := en }] := by
      rw [← hsd]
      show qcs.heap.modify al.1 _ = _
      rw [c2, hlen, hal2, hal1]
      rw [List.append_assoc, modify_append_add]
      rfl
    have hsdr : sd.reg = s.reg := by rw [← hsd]; show qcs.reg = _; rw [c3, halr]
    have hsdo : sd.oom = s.oom := by rw [← hsd]; show qcs.oom = _; rw [c4, halo]
    have hsdt : TrSame (anonIn s).tr sd.tr := by rw [← hsd]; exact TrSame.trans halt c5
    have hstep : Step (anonIn s) sd := step_of_ext _ hsdh hsdr hsdo hsdt
    have hwd : WF3 decls rank sd := WF3.step (hstep_of_ext _ hsdh hsdr).toW hsdr hw
    have hunreg : ∀ j, s.heap.length ≤ j → ∀ k i, dGet k sd.reg = some i → i ≠ j := by
      intro j hj k i hki
      rw [hsdr] at hki
      have := wf3_reg_lt hw k i hki
      omega
    have hg1 : sd.get (s.heap.length + 1) = { type := some sArray, items := some (s.heap.length + 2) } := by
      rw [get_ext _ hsdh 1]; rfl
    have hg2 : sd.get (s.heap.length + 2) = { type := some ty.str, hasEnum := en } := by
      rw [get_ext _ hsdh 2]; rfl
    have hsdl : sd.heap.length = s.heap.length + 3 := by rw [hsdh]; simp
    rw [hal1]
    refine ⟨step_anon hstep, own_anon3 (Own3.of_states_eq hsdt.2.2.2.2), hwd.anonOut, Denotes.anonOut ?_, by
      show s.heap.length ≤ s.heap.length + 1; omega⟩
    refine ⟨⟨by omega, by rw [hg1]; rfl, hunreg _ (by omega)⟩, by rw [hg1], by rw [hg1], s.heap.length + 2,
      by rw [hg1], ?_⟩
    exact ⟨⟨by omega, by rw [hg2]; rfl, hunreg _ (by omega)⟩, by rw [hg2], by rw [hg2]⟩
  · -- `$ref` items: the second parse finds the registered schema
    subst e
    obtain ⟨nd, hnd⟩ := dGet_of_mem_keys decls t hmem
    have hrk : rank t + 2 < r + 1 := hr
    have hd' : (anonIn s).tr.depth + rank t + 2 ≤ (anonIn s).tr.maxDepth := by
      show s.tr.depth + 1 + rank t + 2 ≤ s.tr.maxDepth
      have : s.tr.depth + (rank t + 2) + 1 ≤ s.tr.maxDepth := hd
      omega
    have hR' : rank t + 2 ≤ R := hR
    obtain ⟨a1, a2, a3, a4⟩ := hRef t nd (anonIn s) R hnd hno hne (by omega) (by omega) hd' hw.anonIn hk.anonIn
    generalize P none (.ref t) true (anonIn s) = qa at a1 a2 a3 a4 ⊢
    obtain ⟨rid, qas⟩ := qa
    simp only at a1 a2 a3 a4 ⊢
    have hridlt : rid < qas.heap.length := wf3_reg_lt a3 t rid a4
    generalize hal : qas.alloc { type := some sArray, items := some rid } = al
    have hal1 : al.1 = qas.heap.length := by rw [← hal]; rfl
    have hal2 : al.2.heap = qas.heap ++ [{ type := some sArray, items := some rid }] := by rw [← hal]; rfl
    have halr : al.2.reg = qas.reg := by rw [← hal]; rfl
    have halo : al.2.oom = qas.oom := by rw [← hal]; rfl
    have halt : al.2.tr = qas.tr := by rw [← hal]; rfl
    have hdm : (al.2.get rid).depthMarker = false := by
      have : al.2.get rid = qas.get rid := by
        unfold PSt.get; rw [hal2]; exact getD_append_left _ _ _ hridlt
      rw [this]
      obtain ⟨_, _, _, _, _, hfull, _⟩ := (a3.1 t rid a4).2 hmem
      exact (kind_full_flags hfull).1
    obtain ⟨c1, c2, c3, c4, c5⟩ := hHit t al.2 rid hno hne (by rw [halr]; exact a4) hdm
    generalize P none (.ref t) true al.2 = qc at c1 c2 c3 c4 c5 ⊢
    obtain ⟨qci, qcs⟩ := qc
    simp only at c1 c2 c3 c4 c5 ⊢
    subst c1
    generalize hsd : qcs.modify al.1 (fun o => { o with items := some qci }) = sd
    have hsdh : sd.heap = qas.heap ++ [{ type := some sArray, items := some qci }] := by
      rw [← hsd]
      show qcs.heap.modify al.1 _ = _
      rw [c2, hal2, hal1, modify_append_length]
    have hsdr : sd.reg = qas.reg := by rw [← hsd]; show qcs.reg = _; rw [c3, halr]
    have hsdo : sd.oom = qas.oom := by rw [← hsd]; show qcs.oom = _; rw [c4, halo]
    have hsdt : TrSame qas.tr sd.tr := by rw [← hsd, ← halt]; exact c5
    have hstep : Step qas sd := step_of_ext _ hsdh hsdr hsdo hsdt
    have hwd : WF3 decls rank sd := WF3.step (hstep_of_ext _ hsdh hsdr).toW hsdr a3
    have hg1 : sd.get qas.heap.length = { type := some sArray, items := some qci } := by
      have := get_ext _ hsdh 0
      simpa using this
    rw [hal1]
    refine ⟨step_anon (Step.trans a1 hstep),
      own_anon3 (Own3.trans a1 hstep a2 (Own3.of_states_eq hsdt.2.2.2.2)), hwd.anonOut, Denotes.anonOut ?_, by
      show s.heap.length ≤ qas.heap.length; exact a1.heapLen⟩
    refine ⟨⟨by rw [hsdh]; simp, by rw [hg1]; rfl, ?_⟩, by rw [hg1], by rw [hg1], qci, by rw [hg1], ?_⟩
    · intro k i hki
      rw [hsdr] at hki
      exact Nat.ne_of_lt (wf3_reg_lt a3 k i hki)
    · have hsan := sanClass_of_declared3 decls rank hS t hmem
      show Denotes _ sd (.ref (sanClass (lastSeg t))) qci
      rw [lastSeg_of_no_slash t hno, hsan]
      exact ⟨hmem, by rw [hsdr]; exact a4⟩


/-! ### named context objects: a map node, an enum node -/

/-- the value node of a map (only its effect on the state matters) -/
theorem leaf_step3 (decls : Decls) (rank : Str → Nat) (P : PFn) (r : Nat) (hC : CoreInv P) (hPrim : PrimSpecE P)
    (hRef : RefSpec3 decls rank P r) (a : Node) (s : PSt) (R : Nat)
    (ha : leaf3 (decls.map (·.1)) a = true) (hr : leafCost3 rank a < r + 1) (hR : leafCost3 rank a ≤ R)
    (hd : s.tr.depth + leafCost3 rank a ≤ s.tr.maxDepth) (hw : WF3 decls rank s) (hk : TK3 decls rank s R) :
    Step s (P none a true s).2 ∧ Own3 decls [] s (P none a true s).2 ∧ WF3 decls rank (P none a true s).2 ∧
    s.heap.length ≤ (P none a true s).2.heap.length := by
  rw [hC none a true s]
  unfold leafCost3 at hr hR hd
  unfold leaf3 at ha
  generalize a.core = a at *
  rcases leafOK_cases _ a ha with ⟨ty, en, e⟩ | ⟨t, e, hmem, hno, hne⟩
  · subst e
    obtain ⟨_, a2, a3, a4, a5⟩ := hPrim ty en s
    have hst := step_of_ext _ a2 a3 a4 a5
    exact ⟨hst, Own3.of_states_eq a5.2.2.2.2, WF3.step (hstep_of_ext _ a2 a3).toW a3 hw, hst.heapLen⟩
  · subst e
    obtain ⟨nd, hnd⟩ := dGet_of_mem_keys decls t hmem
    have h1 : rank t + 2 < r + 1 := hr
    have h2 : rank t + 2 ≤ R := hR
    have h3 : s.tr.depth + (rank t + 2) ≤ s.tr.maxDepth := hd
    obtain ⟨b1, b2, b3, _⟩ := hRef t nd s R hnd hno hne (by omega) (by omega) (by omega) hw hk
    exact ⟨b1, b2, b3, b1.heapLen⟩

/-- the common end of a named call under a context name `c`: the object `model` is allocated on top of `se` -/
theorem ctx_close (decls : Decls) (rank : Str → Nat) (c : Str) (s se : PSt) (R : Nat) (model : IR)
    (hpre : CtxPre3 decls rank c s R)
    (hl1 : Step (afterEnter s c) se) (hl2 : Own3 decls [] (afterEnter s c) se) (hl3 : WF3 decls rank se)
    (hname : model.name = some c)
    (hsp : ∀ t, model.type = some t → primTypes.contains t = true → model.hasEnum = false → False) :
    ∃ sf, ((finish decls (some c) se.heap.length (se.alloc model).2).1,
           ({ ((finish decls (some c) se.heap.length (se.alloc model).2).2.doExit (some c)) with
              nest := ((finish decls (some c) se.heap.length (se.alloc model).2).2.doExit (some c)).nest - 1 } : PSt))
          = (se.heap.length, sf) ∧
      Step s sf ∧ Own3 decls [c] s sf ∧ WF3 decls rank sf ∧ dGet c sf.reg = some se.heap.length ∧
      se.heap.length < sf.heap.length ∧ sf.get se.heap.length = model := by
  obtain ⟨hcn, hsan, hc, hw, hk, hstate, hown⟩ := hpre
  have hnstack : c ∉ s.tr.stack := by
    intro hm
    have := hk.2.1 c hm
    rw [hstate] at this
    cases this
  have hnreg : s.regHas c = false := by
    rcases hk.2.2.1 c with ⟨_, b⟩ | ⟨x, _⟩ | ⟨x, _⟩
    · exact b
    · rw [hstate] at x; cases x
    · rw [hstate] at x; cases x
  obtain ⟨sf, heq, hst, hhs, hfheap, hfreg, hnone, hfstates, hfget⟩ :=
    named_close decls c s se (se.alloc model).2 model [] hc hstate hnstack hnreg hk.1 hl1 rfl rfl rfl
      (TrSame.rfl' _) hname (fun t ht hpt he => (hsp t ht hpt he).elim)
  refine ⟨sf, heq, hst, ?_, ?_, by rw [hfreg, dGet_dSet_self], by rw [hfheap]; simp, hfget⟩
  · refine own_close3 hfstates hl2 ?_
    intro d hd' k hk' hnot
    exact ⟨fun e => hnot (by rw [e]; exact List.mem_singleton.mpr rfl), fun hin => by cases hin⟩
  · exact WF3.close hl3 hhs hfreg hfheap (fun h => absurd h hcn)

theorem CtxPre3.enter {decls : Decls} {rank : Str → Nat} {c : Str} {s : PSt} {R : Nat} (hpre : CtxPre3 decls rank c s R)
    (hd : s.tr.depth + 1 ≤ s.tr.maxDepth) :
    Trk.enter s.tr (some c) true = (enteredTr s.tr c, { action := .continueParsing }) ∧
    TK3 decls rank (afterEnter s c) R ∧ WF3 decls rank (afterEnter s c) := by
  obtain ⟨hcn, hsan, hc, hw, hk, hstate, hown⟩ := hpre
  exact ⟨enter_fresh3 hk hc hstate hd,
    TK3.afterEnter hk hstate (Nat.le_refl _) (fun h => absurd h hcn) (fun d hd k hk' e => hown d hd (e ▸ hk')),
    WF3.congr (s := s) (s' := afterEnter s c) rfl rfl hw⟩

theorem parseStep_mapSpec3 (decls : Decls) (rank : Str → Nat) (P : PFn) (r : Nat) (hC : CoreInv P)
    (hPrim : PrimSpecE P) (hRef : RefSpec3 decls rank P r) :
    MapSpec3 decls rank (parseStep decls P) (r + 1) := by
  intro c a req s R hpre ha hr hR hd
  obtain ⟨he, hk1, hw1⟩ := hpre.enter (by omega)
  have hps := parseStep_named_eq decls P c (.obj none req (some a)) s he
  rw [body_map_eq decls P c a req _ hpre.2.2.1 hpre.2.1] at hps
  obtain ⟨l1, l2, l3, _⟩ := leaf_step3 decls rank P r hC hPrim hRef a (afterEnter s c) R ha hr hR
    (by show s.tr.depth + 1 + _ ≤ s.tr.maxDepth; omega) hw1 hk1
  generalize hq : P none a true (afterEnter s c) = q at l1 l2 l3 hps
  obtain ⟨ai, se⟩ := q
  simp only at l1 l2 l3 hps
  obtain ⟨sf, heq, hst, hown, hwf, hreg, hlt, hfget⟩ :=
    ctx_close decls rank c s se R { name := some c, type := some sObject, required := dedup req, addl := some ai }
      hpre l1 l2 l3 rfl (by
        intro t ht hpt _
        cases ht
        exact absurd hpt (by decide))
  have hps' : parseStep decls P (some c) (Node.obj none req (some a)) true s = (se.heap.length, sf) := by
    rw [hps]; exact heq
  rw [hps']
  exact ⟨hst, hown, hwf, hreg, hlt, by rw [hfget], by rw [hfget]; rfl, by rw [hfget], by rw [hfget], by rw [hfget]⟩

theorem body_enum_eq (decls : Decls) (P : PFn) (c : Str) (ty : PrimTy) (s : PSt) (hc : c ≠ [])
    (hsan : sanClass c = c) :
    body decls P (some c) (.prim ty true) true s =
      finish decls (some c) (s.alloc { name := some c, type := some ty.str, hasEnum := true }).1
        (s.alloc { name := some c, type := some ty.str, hasEnum := true }).2 := by
  have hmk : mkIR { name := some c, type := some ty.str, hasEnum := true } =
      { name := some c, type := some ty.str, hasEnum := true } := mkIR_named c hc hsan _ rfl
  simp [body, Node.core, truthy_of_ne c hc, hsan, hmk]

theorem parseStep_enumSpec3 (decls : Decls) (rank : Str → Nat) (P : PFn) :
    EnumSpec3 decls rank (parseStep decls P) := by
  intro c ty s R hpre hd
  obtain ⟨he, hk1, hw1⟩ := hpre.enter hd
  have hps := parseStep_named_eq decls P c (.prim ty true) s he
  rw [body_enum_eq decls P c ty _ hpre.2.2.1 hpre.2.1] at hps
  obtain ⟨sf, heq, hst, hown, hwf, hreg, hlt, hfget⟩ :=
    ctx_close decls rank c s (afterEnter s c) R { name := some c, type := some ty.str, hasEnum := true }
      hpre (Step.refl _) (Own3.of_states_eq rfl) hw1 rfl (by
        intro t _ _ he
        cases he)
  have hps' : parseStep decls P (some c) (.prim ty true) true s = ((afterEnter s c).heap.length, sf) := by
    rw [hps]; exact heq
  rw [hps']
  exact ⟨hst, hown, hwf, hreg, hlt, by rw [hfget], by rw [hfget]; rfl, by rw [hfget], by rw [hfget], by rw [hfget]⟩

/-! ### one property -/

theorem isRef_core (p : Node) : p.core.isRef = p.isRef := by unfold Node.isRef; rw [core_core]
theorem isInlineObj_core (p : Node) : p.core.isInlineObj = p.isInlineObj := by unfold Node.isInlineObj; rw [core_core]
theorem isPlainPrim_core (p : Node) : p.core.isPlainPrim = p.isPlainPrim := by unfold Node.isPlainPrim; rw [core_core]
theorem isSimpleArr_core (p : Node) : p.core.isSimpleArr = p.isSimpleArr := by unfold Node.isSimpleArr; rw [core_core]
theorem enumFlag_core (p : Node) : p.core.enumFlag = p.enumFlag := by unfold Node.enumFlag; rw [core_core]

theorem propStep_core (decls : Decls) (P : PFn) (hC : CoreInv P) (par : Option Str) (k : Str) (p : Node) (s : PSt) :
    propStep decls P par true k p s = propStep decls P par true k p.core s := by
  unfold propStep propInline propOther propCtxName
  simp only [isRef_core, isInlineObj_core, isPlainPrim_core, isSimpleArr_core, enumFlag_core]
  simp only [hC _ p]

theorem rename_post3 {decls : Decls} {rank : Str → Nat} {s : PSt} {q : Nat × PSt} {K : Kind}
    (h : AnonPost3 decls rank s q K) (f : IR → IR) (hf : ∀ o, (f o).shape = o.shape) :
    Step s (q.2.modify q.1 f) ∧ Own3 decls [] s (q.2.modify q.1 f) ∧ WF3 decls rank (q.2.modify q.1 f) ∧
    Denotes (decls.map (·.1)) (q.2.modify q.1 f) K q.1 := by
  obtain ⟨h1, h2, h3, h4, h5⟩ := h
  have hw := rename_hstepW q.2 q.1 f hf
  exact ⟨h1.modify_fresh q.1 f h5, h2, WF3.step hw rfl h3, Denotes.step hw K q.1 h4⟩

theorem primSpec_anonPost3 (decls : Decls) (rank : Str → Nat) (P : PFn) (hPrim : PrimSpec P) (ty : PrimTy) (s : PSt)
    (hw : WF3 decls rank s) : AnonPost3 decls rank s (P none (.prim ty false) true s) (.prim ty) := by
  obtain ⟨a1, a2, a3, a4, a5⟩ := hPrim ty s
  have hst := step_of_ext _ a2 a3 a4 a5
  have hg : (P none (.prim ty false) true s).2.get s.heap.length = { type := some ty.str } := by
    have := get_ext _ a2 0
    simpa using this
  refine ⟨hst, Own3.of_states_eq a5.2.2.2.2, WF3.step (hstep_of_ext _ a2 a3).toW a3 hw, ?_, by rw [a1]; exact Nat.le_refl _⟩
  rw [a1]
  refine ⟨⟨by rw [a2]; simp, by rw [hg]; rfl, ?_⟩, by rw [hg], by rw [hg]⟩
  intro k i hki
  rw [a3] at hki
  exact Nat.ne_of_lt (wf3_reg_lt hw k i hki)

/-- what every property step delivers; `ex` = the context name the step itself used, if any -/
def PropPost3 (decls : Decls) (rank : Str → Nat) (ex : List Str) (s : PSt) (k : Str) (p : Node) (q : Nat × PSt) : Prop :=
  Step s q.2 ∧ Own3 decls ex s q.2 ∧ WF3 decls rank q.2 ∧ FieldK (decls.map (·.1)) q.2 (k, nodeKind p) (k, q.1)

theorem propStep_prim_eq3 (decls : Decls) (P : PFn) (par : Option Str) (k : Str) (ty : PrimTy) (s : PSt) :
    propStep decls P par true k (.prim ty false) s =
      ((P none (.prim ty false) true s).1,
       (P none (.prim ty false) true s).2.modify (P none (.prim ty false) true s).1
         (fun o => { o with name := some k, hasEnum := o.hasEnum || false })) := by
  simp [propStep, Node.isRef, Node.isInlineObj, Node.core, propOther, propCtxName, Node.isPlainPrim,
    Node.enumFlag]

theorem propStep_arr_eq3 (decls : Decls) (P : PFn) (par : Option Str) (k : Str) (i : Node) (s : PSt)
    (hi : leaf3 (decls.map (·.1)) i = true) :
    propStep decls P par true k (.arr i) s =
      ((P none (.arr i) true s).1,
       (P none (.arr i) true s).2.modify (P none (.arr i) true s).1
         (fun o => { o with name := some k, hasEnum := o.hasEnum || false })) := by
  unfold leaf3 at hi
  rcases leafOK_cases _ i.core hi with ⟨ty, en, e⟩ | ⟨t, e, _⟩
  · simp [propStep, Node.isRef, Node.isInlineObj, Node.core, propOther, propCtxName, Node.isPlainPrim,
      Node.isSimpleArr, Node.isPrim, Node.enumFlag, e]
  · simp [propStep, Node.isRef, Node.isInlineObj, Node.core, propOther, propCtxName, Node.isPlainPrim,
      Node.isSimpleArr, Node.isPrim, Node.enumFlag, e]

theorem propStep_prim3 (decls : Decls) (rank : Str → Nat) (P : PFn) (hPrim : PrimSpec P) (par : Option Str) (k : Str)
    (ty : PrimTy) (s : PSt) (hw : WF3 decls rank s) :
    PropPost3 decls rank [] s k (.prim ty false) (propStep decls P par true k (.prim ty false) s) := by
  rw [propStep_prim_eq3]
  obtain ⟨h1, h2, h3, h4⟩ := rename_post3 (primSpec_anonPost3 decls rank P hPrim ty s hw) _ (rename_shape k)
  exact ⟨h1, h2, h3, rfl, by simp [nodeKind, kfuel], Or.inl h4⟩

theorem kfuel_leaf (names : List Str) (i : Node) (hi : leaf3 names i = true) : kfuel (nodeKind i) = 1 := by
  unfold leaf3 at hi
  rw [← nodeKind_core]
  rcases leafOK_cases _ i.core hi with ⟨ty, en, e⟩ | ⟨t, e, _⟩
  · rw [e]; rfl
  · rw [e]; rfl

theorem propStep_arr3 (decls : Decls) (rank : Str → Nat) (P : PFn) (r : Nat) (hArr : ArrSpec3 decls rank P r)
    (par : Option Str) (k : Str) (i : Node) (s : PSt) (R : Nat) (hi : leaf3 (decls.map (·.1)) i = true)
    (hr : leafCost3 rank i < r) (hR : leafCost3 rank i ≤ R) (hd : s.tr.depth + leafCost3 rank i + 1 ≤ s.tr.maxDepth)
    (hw : WF3 decls rank s) (hk : TK3 decls rank s R) :
    PropPost3 decls rank [] s k (.arr i) (propStep decls P par true k (.arr i) s) := by
  rw [propStep_arr_eq3 decls P par k i s hi]
  obtain ⟨h1, h2, h3, h4⟩ := rename_post3 (hArr i s R hi hr hR hd hw hk) _ (rename_shape k)
  refine ⟨h1, h2, h3, rfl, ?_, Or.inl h4⟩
  show kfuel (.arr (nodeKind i)) ≤ 6
  simp [kfuel, kfuel_leaf _ i hi]

theorem propStep_ref3 (decls : Decls) (rank : Str → Nat) (hS : Simple3 decls rank) (P : PFn) (r : Nat)
    (hP : SpecP3 decls rank P r) (par : Option Str) (k t : Str) (s : PSt) (hw : WF3 decls rank s)
    (hk : TK3 decls rank s (rank t + 1))
    (hmem : t ∈ decls.map (·.1)) (hno : t.contains '/' = false) (hne : t ≠ []) (hr : rank t < r)
    (hd : s.tr.depth + rank t + 1 ≤ s.tr.maxDepth) :
    PropPost3 decls rank [] s k (.ref t) (propStep decls P par true k (.ref t) s) := by
  have hq : propStep decls P par true k (.ref t) s = resolveRef decls P t true s := by
    simp [propStep, Node.isRef, Node.core]
  rw [hq]
  obtain ⟨nd, hnd⟩ := dGet_of_mem_keys decls t hmem
  obtain ⟨h1, h2, h3, h4⟩ := resolveRef_spec3 decls rank P r hP t nd s hw hk hnd hno hne hr hd
  refine ⟨h1, h2, h3, rfl, by simp [nodeKind, kfuel], Or.inl ?_⟩
  show Denotes _ _ (.ref (sanClass (lastSeg t))) _
  rw [lastSeg_of_no_slash t hno, sanClass_of_declared3 decls rank hS t hmem]
  exact ⟨hmem, h4⟩

/-! ### properties parsed under a context name -/

theorem dSet_same {β : Type} (k : Str) (v : β) (d : List (Str × β)) (h : dGet k d = some v) : dSet k v d = d := by
  induction d with
  | nil => cases h
  | cons p rest ih =>
    obtain ⟨k', v'⟩ := p
    by_cases e : k' = k
    · simp only [dGet, e, if_true] at h
      cases h
      simp [dSet, e]
    · simp only [dGet, e, if_false] at h
      simp [dSet, e, ih h]

/-- `propOther` when the property was parsed and registered under the context name `c`: a nameless reference
    holder -/
theorem propOther_ctx_eq (P : PFn) (par : Option Str) (k c : Str) (p : Node) (s : PSt) (mid : Nat) (sm : PSt) (ty : Str)
    (hctx : propCtxName par k p = some c) (hq : P (some c) p true s = (mid, sm))
    (hreg : dGet c sm.reg = some mid) (hname : (sm.get mid).name = some c) (hfull : (sm.get mid).kind = .full)
    (hty : (sm.get mid).type = some ty)
    (hcase : (ty = sObject ∧ p.enumFlag = false) ∨ (ty ≠ sObject ∧ ty ≠ sArray ∧ (sm.get mid).hasEnum = true))
    (hpp : p.isPlainPrim = false) :
    propOther P par true k p s = sm.alloc { type := some c, refersTo := some mid } := by
  obtain ⟨f1, f2, _, f4⟩ := kind_full_flags hfull
  have hne : ¬ (sObject = sArray) := by decide
  unfold propOther
  simp only [hctx, hq]
  rcases hcase with ⟨e1, e2⟩ | ⟨e1, e2, e3⟩
  · subst e1
    simp [hname, hty, PSt.regHas, dHas, hreg, f1, f2, f4, hpp, e2, mkIR, truthy, hne]
  · simp [hname, hty, PSt.regHas, dHas, hreg, f1, f2, f4, hpp, e1, e2, e3, mkIR, truthy]

theorem propCtxName_map (n k : Str) (req : List Str) (a : Node) (hn : n ≠ []) :
    propCtxName (some n) k (.obj none req (some a)) = some (mapCtx n k) := by
  simp [propCtxName, truthy_of_ne n hn, Node.isPlainPrim, Node.isSimpleArr, Node.core, mapCtx]

theorem propCtxName_enum (n k : Str) (ty : PrimTy) (hn : n ≠ []) :
    propCtxName (some n) k (.prim ty true) = some (mapCtx n k) := by
  simp [propCtxName, truthy_of_ne n hn, Node.isPlainPrim, Node.isSimpleArr, Node.core, mapCtx]

/-- the holder allocated on top of a `CtxPost3` state -/
theorem holder_post (decls : Decls) (rank : Str → Nat) (c : Str) (s : PSt) (mid : Nat) (sm : PSt) (ty : Str) (e : Bool)
    (hcn : c ∉ decls.map (·.1)) (h : CtxPost3 decls rank c s (mid, sm) ty e) (H : IR)
    (hH1 : H.kind = .full) (hH2 : H.refersTo = some mid) :
    Step s (sm.alloc H).2 ∧ Own3 decls [c] s (sm.alloc H).2 ∧ WF3 decls rank (sm.alloc H).2 ∧
    Anon (sm.alloc H).2 sm.heap.length ∧
    ∃ c' mid', ((sm.alloc H).2.get sm.heap.length).refersTo = some mid' ∧ c' ∉ decls.map (·.1) ∧
      dGet c' (sm.alloc H).2.reg = some mid' ∧ mid' < (sm.alloc H).2.heap.length ∧
      ((sm.alloc H).2.get mid').kind = .full ∧ ((sm.alloc H).2.get mid').refersTo = none ∧
      ((sm.alloc H).2.get mid').type = some ty := by
  obtain ⟨m1, m2, m3, m4, m5, _, m7, m8, m9, _⟩ := h
  simp only at m1 m2 m3 m4 m5 m7 m8 m9
  have hh : (sm.alloc H).2.heap = sm.heap ++ [H] := rfl
  have hr' : (sm.alloc H).2.reg = sm.reg := rfl
  have hst : Step sm (sm.alloc H).2 := step_of_ext _ hh hr' rfl (TrSame.rfl' _)
  have hhs := (hstep_of_ext _ hh hr').toW
  have hg : (sm.alloc H).2.get sm.heap.length = H := get_alloc _ _
  have hgm : (sm.alloc H).2.get mid = sm.get mid := by
    unfold PSt.get
    rw [hh]
    exact getD_append_left _ _ _ m5
  refine ⟨Step.trans m1 hst, Own3.trans m1 hst m2 (Own3.of_states_eq rfl), WF3.step hhs hr' m3, ?_, ?_⟩
  · refine ⟨by rw [hh]; simp, by rw [hg]; exact hH1, ?_⟩
    intro k' i hki
    exact Nat.ne_of_lt (wf3_reg_lt m3 k' i hki)
  · exact ⟨c, mid, by rw [hg]; exact hH2, hcn, m4, by rw [hh]; simp; omega, by rw [hgm]; exact m7,
      by rw [hgm]; exact m8, by rw [hgm]; exact m9⟩

theorem propStep_map3 (decls : Decls) (rank : Str → Nat) (P : PFn) (r : Nat) (hMap : MapSpec3 decls rank P r)
    (n k : Str) (a : Node) (req : List Str) (s : PSt) (R : Nat) (hn : n ≠ [])
    (hpre : CtxPre3 decls rank (mapCtx n k) s R) (ha : leaf3 (decls.map (·.1)) a = true)
    (hr : leafCost3 rank a < r) (hR : leafCost3 rank a ≤ R) (hd : s.tr.depth + leafCost3 rank a + 1 ≤ s.tr.maxDepth) :
    PropPost3 decls rank [mapCtx n k] s k (.obj none req (some a))
      (propStep decls P (some n) true k (.obj none req (some a)) s) := by
  have hq : propStep decls P (some n) true k (.obj none req (some a)) s =
      propOther P (some n) true k (.obj none req (some a)) s := by
    simp [propStep, Node.isRef, Node.isInlineObj, Node.core]
  rw [hq]
  have hpost := hMap (mapCtx n k) a req s R hpre ha hr hR hd
  generalize hqq : P (some (mapCtx n k)) (.obj none req (some a)) true s = q at hpost
  obtain ⟨mid, sm⟩ := q
  rw [propOther_ctx_eq P (some n) k (mapCtx n k) _ s mid sm sObject (propCtxName_map n k req a hn) hqq hpost.2.2.2.1
    hpost.2.2.2.2.2.1 hpost.2.2.2.2.2.2.1 hpost.2.2.2.2.2.2.2.2.1 (Or.inl ⟨rfl, rfl⟩) rfl]
  obtain ⟨h1, h2, h3, h4, h5⟩ := holder_post decls rank _ s mid sm _ _ hpre.1 hpost
    { type := some (mapCtx n k), refersTo := some mid } rfl rfl
  exact ⟨h1, h2, h3, rfl, by simp [nodeKind, kfuel], Or.inl ⟨h4, h5⟩⟩

theorem propStep_enum3 (decls : Decls) (rank : Str → Nat) (P : PFn) (hEnum : EnumSpec3 decls rank P)
    (n k : Str) (ty : PrimTy) (s : PSt) (R : Nat) (hn : n ≠ [])
    (hpre : CtxPre3 decls rank (mapCtx n k) s R) (hd : s.tr.depth + 1 ≤ s.tr.maxDepth) :
    PropPost3 decls rank [mapCtx n k] s k (.prim ty true) (propStep decls P (some n) true k (.prim ty true) s) := by
  have hq : propStep decls P (some n) true k (.prim ty true) s = propOther P (some n) true k (.prim ty true) s := by
    simp [propStep, Node.isRef, Node.isInlineObj, Node.core]
  rw [hq]
  have hpost := hEnum (mapCtx n k) ty s R hpre hd
  generalize hqq : P (some (mapCtx n k)) (.prim ty true) true s = q at hpost
  obtain ⟨mid, sm⟩ := q
  have hty : ty.str ≠ sObject ∧ ty.str ≠ sArray := by cases ty <;> decide
  rw [propOther_ctx_eq P (some n) k (mapCtx n k) _ s mid sm ty.str (propCtxName_enum n k ty hn) hqq hpost.2.2.2.1
    hpost.2.2.2.2.2.1 hpost.2.2.2.2.2.2.1 hpost.2.2.2.2.2.2.2.2.1 (Or.inr ⟨hty.1, hty.2, hpost.2.2.2.2.2.2.2.2.2⟩) rfl]
  obtain ⟨h1, h2, h3, h4, h5⟩ := holder_post decls rank _ s mid sm _ _ hpre.1 hpost
    { type := some (mapCtx n k), refersTo := some mid } rfl rfl
  exact ⟨h1, h2, h3, rfl, by simp [nodeKind, kfuel], Or.inr ⟨ty, rfl, h4, h5⟩⟩
