import Pog.Drv.Util
import Pog.Model.Extract
open Lean Pog Pog.Drv Pog.Extract
namespace Pog.Drv

def extractFns : List String :=
  ["extractArrayItems", "extractEnums", "extractEnumsTwice", "modelKind", "dropSub", "itemBaseName"]

private def getOptX (f : Json → Except String α) (j : Json) : Except String (Option α) :=
  if j.isNull then pure none else do pure (some (← f j))

private def fieldOr (j : Json) (k : String) : Json := (j.getObjVal? k).toOption.getD Json.null

/-- `{"name","type","gen","stem": str|null, "enum": [str]|null, "props": [[key, schema]…],
     "items": schema|null, "anyOf","oneOf","allOf": bool}` (absent = null / [] / false). -/
private partial def getSchemaX (j : Json) : Except String Schema := do
  let name ← getOptX getStr (fieldOr j "name")
  let ty ← getOptX getStr (fieldOr j "type")
  let gen ← getOptX getStr (fieldOr j "gen")
  let stem ← getOptX getStr (fieldOr j "stem")
  let en ← getOptX getStrs (fieldOr j "enum")
  let pj := fieldOr j "props"
  let props ← if pj.isNull then pure [] else
    getList (fun e => do
      let a ← e.getArr?
      let k ← getStr (← argN a 0)
      let s ← getSchemaX (← argN a 1)
      pure (k, s)) pj
  let items ← getOptX getSchemaX (fieldOr j "items")
  let b (k : String) : Bool := ((fieldOr j k).getBool?).toOption.getD false
  pure { name := name, ty := ty, genName := gen, stem := stem, enumVals := en, props := props, items := items,
         anyOf := b "anyOf", oneOf := b "oneOf", allOf := b "allOf" }

private partial def jschemaX (s : Schema) : Json :=
  Json.mkObj [
    ("name", jopt jstr s.name), ("type", jopt jstr s.ty), ("gen", jopt jstr s.genName),
    ("stem", jopt jstr s.stem), ("enum", jopt jstrs s.enumVals),
    ("props", Json.arr (s.props.map (fun (k, p) => Json.arr #[jstr k, jschemaX p])).toArray),
    ("items", jopt jschemaX s.items),
    ("anyOf", Json.bool s.anyOf), ("oneOf", Json.bool s.oneOf), ("allOf", Json.bool s.allOf)]

private def getRegX (j : Json) : Except String Reg :=
  getList (fun e => do
    let a ← e.getArr?
    let k ← getStr (← argN a 0)
    let s ← getSchemaX (← argN a 1)
    pure (k, s)) j

private def jregX (r : Reg) : Json := Json.arr (r.map (fun (k, s) => Json.arr #[jstr k, jschemaX s])).toArray

private def getDiscX (j : Json) : Except String (List (Str × Str)) :=
  getList (fun e => do
    let a ← e.getArr?
    pure ((← getStr (← argN a 0)), (← getStr (← argN a 1)))) j

private def kindName : Kind → String
  | .enum => "enum" | .alias => "alias" | .dataclass => "dataclass"
  | .dataWrapperDataclass => "dataWrapperDataclass" | .skipped => "skipped"

def extractRun (f : String) (a : Array Json) (u : UInfo) : Except String Json := do
  match f with
  | "extractArrayItems" => pure (jopt jregX (extractArrayItemsChecked u (← getRegX (← argN a 0))))
  | "extractEnums" =>
    pure (jopt jregX (extractEnumsChecked u (← getRegX (← argN a 0)) (← getDiscX (← argN a 1))))
  | "extractEnumsTwice" =>
    let d ← getDiscX (← argN a 1)
    pure (jopt jregX ((extractEnumsChecked u (← getRegX (← argN a 0)) d).bind (fun r => extractEnumsChecked u r d)))
  | "modelKind" =>
    let s ← getSchemaX (← argN a 0)
    let skip ← getStrs (← argN a 1)
    let fl := kindFlags s
    pure (Json.mkObj [("kind", jopt (fun k => Json.str (kindName k)) (modelKindE s skip)),
                      ("flags", Json.arr #[Json.bool fl.isEnum, Json.bool fl.isAlias, Json.bool fl.isDataclass,
                                           Json.bool fl.wrapper])])
  | "dropSub" => pure (jstr (dropSub (← getStr (← argN a 0)) 0 (← getStr (← argN a 1))))
  | "itemBaseName" =>
    pure (jstr (itemBaseName u (← getStr (← argN a 0)) (← getStr (← argN a 1)) (← getSchemaX (← argN a 2))))
  | _ => throw s!"unknown function {f}"

def dispatchExtract : Dispatch := fun f a u =>
  if extractFns.contains f then some (extractRun f a u) else none

end Pog.Drv
