import Pog.Gen.Imports
import Pog.Lemmas.Imports
/-
  C12 — the emitted package is self-contained.

  FULL STATEMENT: no file of an emitted package imports the generator or anything outside the standard library,
  httpx, cattrs, the emitted package itself and its designated core package; the runtime modules placed in the
  core package are byte-for-byte the runtime modules shipped with the generator.

  What is proved here (the byte-for-byte half and the composition are checked end to end elsewhere):
    * over the GENERATED tables of `Pog/Gen/Imports.lean` (re-checked by `decide +kernel` whenever the tables
      are regenerated from the Python source):
        runtime_imports_allowed                  every import of a runtime file is stdlib / httpx / cattrs, or relative
                                                 and inside the core package — EXCEPT `knownForeignRuntimeImports`
        runtime_imports_allowed_counterexample   ✗ witness: `core/utils.py` imports `black` (inside
                                                 `Formatter.__init__`, under `try/except ImportError`)
        emittable_imports_allowed                every import the generator can request / has in a template is
                                                 relative, starts with a run-time hole (own / core package), or is
                                                 stdlib / httpx / cattrs — EXCEPT `knownNonEmittedPatterns`
        emittable_imports_counterexample         ✗ witness: `from endpoints.{} import …` (client_visitor.py, the
                                                 fallback branch for "no generated package name", dead in
                                                 `generate_client`)
    * for all inputs, on the model of `RenderContext.add_import`:
        classification_never_rewrites_to_generator   the rendered module has top-level package `g` only if the
                                                 requested one had, or the output package itself has
        relative_import_stays_in_core            a relative import of a runtime file at depth `d` with at most `d+1`
                                                 dots resolves inside the core package, wherever that package lives
-/
namespace Pog.C12
open Pog Pog.Imp

private def s (x : String) : Str := x.toList

/-- third-party distributions the emitted package may import -/
def allowedThirdParty : List Str := [s "httpx", s "cattrs"]

/-- `module.split(".")[0]` is a standard-library module of the running interpreter, httpx or cattrs. -/
def moduleAllowed (m : Str) : Bool :=
  Gen.stdlibModules.contains (topLevel m) || allowedThirdParty.contains (topLevel m)

/-! ## runtime files copied into the core package -/

/-- rows of `runtimeImports` that are absolute and NOT stdlib/httpx/cattrs — genuine findings. -/
def knownForeignRuntimeImports : List (Str × Nat × Nat × Str) :=
  [(s "utils.py", 0, 0, s "black")]

/-- absolute rows: allowed module (or listed finding); relative rows: `level ≤ depth + 1`. -/
def runtimeRowOK (r : Str × Nat × Nat × Str) : Bool :=
  if r.2.2.1 = 0 then moduleAllowed r.2.2.2 || knownForeignRuntimeImports.contains r
  else decide (r.2.2.1 ≤ r.2.1 + 1)

theorem runtime_table_ok : Gen.runtimeImports.all runtimeRowOK = true := by decide +kernel

/-- Every import statement (at any nesting) of every runtime file: an absolute one names a stdlib module,
    httpx or cattrs — or is one of `knownForeignRuntimeImports`; a relative one has at most `depth + 1` dots
    (it cannot leave the core package, see `relative_import_stays_in_core`). -/
theorem runtime_imports_allowed :
    ∀ r ∈ Gen.runtimeImports,
      (r.2.2.1 = 0 → moduleAllowed r.2.2.2 = true ∨ r ∈ knownForeignRuntimeImports) ∧
      (r.2.2.1 ≠ 0 → r.2.2.1 ≤ r.2.1 + 1) := by
  intro r hr
  have h := List.all_eq_true.mp runtime_table_ok r hr
  unfold runtimeRowOK at h
  constructor
  · intro h0
    rw [if_pos h0, Bool.or_eq_true] at h
    rcases h with h | h
    · exact Or.inl h
    · exact Or.inr (List.contains_iff_mem.mp h)
  · intro h0
    rw [if_neg h0] at h
    exact of_decide_eq_true h

/-- ✗ the exception is real: `core/utils.py` (copied verbatim into every client) imports `black`. -/
theorem runtime_imports_allowed_counterexample :
    (s "utils.py", 0, 0, s "black") ∈ Gen.runtimeImports ∧ moduleAllowed (s "black") = false := by
  decide +kernel

/-- … and it is the only one: every listed exception is a row of the table that is not allowed. -/
theorem known_foreign_runtime_imports_tight :
    ∀ r ∈ knownForeignRuntimeImports, r ∈ Gen.runtimeImports ∧ moduleAllowed r.2.2.2 = false := by
  decide +kernel

/-- A relative import with `level` dots (`1 ≤ level ≤ depth + 1`) written in a file `depth` directories below
    the core package resolves to a module of the core package — whatever the core package's own dotted path. -/
theorem relative_import_stays_in_core (core sub parts : List Str) (level : Nat)
    (hcore : core ≠ []) (h1 : 1 ≤ level) (h2 : level ≤ sub.length + 1) (hp : ∀ p ∈ parts, CompOK p) :
    ∃ rest, pyResolveRel (core ++ sub) (List.replicate level '.' ++ joinDots parts) = some (core ++ rest) := by
  obtain ⟨n, rfl⟩ : ∃ n, level = n + 1 := ⟨level - 1, by omega⟩
  have hc : core.length ≠ 0 := fun e => hcore (List.length_eq_zero_iff.mp e)
  rw [pyResolveRel_render (core ++ sub) parts n (by simp; omega) hp]
  refine ⟨sub.take (sub.length - n) ++ parts, ?_⟩
  rw [List.take_append, List.take_of_length_le (by simp; omega), List.append_assoc]
  congr 3
  simp; omega

example : pyResolveRel [s "out", s "shared_core", s "auth"] (s ".base") = some [s "out", s "shared_core", s "auth", s "base"] ∧
    pyResolveRel [s "out", s "shared_core"] (s ".auth.base") = some [s "out", s "shared_core", s "auth", s "base"] := by
  decide +kernel

/-! ## imports the generator can request or carries in templates -/

def holePrefix : Str := s "{}"

/-- rows of `importPatterns` that are absolute, hole-free at the front and not stdlib/httpx/cattrs:
    * `from endpoints.{}`  — visit/client_visitor.py:177, the fallback when the context knows no generated package
                             name (never the case under `generate_client`); WOULD be a foreign absolute import;
    * `myapi.mocks`        — emitters/mocks_emitter.py: a usage example inside the DOCSTRING of `mocks/__init__.py`;
    * `statements`         — prose inside a docstring of import_collector.py (only older extractor versions list it). -/
def knownNonEmittedPatterns : List (Str × Str) :=
  [(s "from", s "endpoints.{}"), (s "template", s "myapi.mocks"), (s "template", s "statements")]

def patternRowOK (r : Str × Str) : Bool :=
  startsWith r.2 ['.'] || startsWith r.2 holePrefix || moduleAllowed r.2 || knownNonEmittedPatterns.contains r

theorem pattern_table_ok : Gen.importPatterns.all patternRowOK = true := by decide +kernel

/-- Every module (pattern) the generator can pass to `add_import`/`add_plain_import`/`add_relative_import` with
    a literal or f-string argument, and every import line inside a string template, is relative, starts with a
    run-time hole (the core package or the output package), or names a stdlib module / httpx / cattrs — or is
    one of `knownNonEmittedPatterns`.  (No row mentions `pyopenapi_gen`: see `no_pattern_names_generator`.) -/
theorem emittable_imports_allowed :
    ∀ r ∈ Gen.importPatterns,
      startsWith r.2 ['.'] = true ∨ startsWith r.2 holePrefix = true ∨ moduleAllowed r.2 = true ∨
      r ∈ knownNonEmittedPatterns := by
  intro r hr
  have h := List.all_eq_true.mp pattern_table_ok r hr
  unfold patternRowOK at h
  simp only [Bool.or_eq_true] at h
  rcases h with ((h | h) | h) | h
  · exact Or.inl h
  · exact Or.inr (Or.inl h)
  · exact Or.inr (Or.inr (Or.inl h))
  · exact Or.inr (Or.inr (Or.inr (List.contains_iff_mem.mp h)))

/-- ✗ the fallback of client_visitor.py is a foreign absolute import should it ever run. -/
theorem emittable_imports_counterexample :
    (s "from", s "endpoints.{}") ∈ Gen.importPatterns ∧
    patternRowOK (s "from", s "endpoints.{}") = true ∧
    moduleAllowed (s "endpoints.{}") = false ∧ startsWith (s "endpoints.{}") ['.'] = false ∧
    startsWith (s "endpoints.{}") holePrefix = false := by
  decide +kernel

/-- No literal pattern and no runtime-file import names the generator package. -/
theorem no_pattern_names_generator :
    (∀ r ∈ Gen.importPatterns, topLevel r.2 ≠ s "pyopenapi_gen") ∧
    (∀ r ∈ Gen.runtimeImports, topLevel r.2.2.2 ≠ s "pyopenapi_gen") := by
  decide +kernel

/-! ## `RenderContext.add_import` never invents a generator import -/

/-- Whatever the context, the module text `add_import` hands to the `ImportCollector` has top-level package `g`
    (`g` non-empty, e.g. `pyopenapi_gen`) only if the REQUESTED module had, or the output package itself is
    `g.…` (the "incomplete path" fix prefixes the output package's own first component). -/
theorem classification_never_rewrites_to_generator (c : ImpCtx) (lm : Str) (name : Option Str)
    (isTyping : Bool) (m g : Str) (hg : g ≠ [])
    (h : (classifyImport c lm name isTyping).module? = some m) (hm : topLevel m = g) :
    topLevel lm = g ∨ ∃ o, c.outputPkg = some o ∧ topLevel o = g := by
  rcases classify_module_cases c lm name isTyping m h with rfl | ⟨rest, rfl⟩
  · rcases topLevel_fixModule c lm with h1 | ⟨o, ho, h1⟩
    · left; rw [← h1]; exact hm
    · right; exact ⟨o, ho, by rw [← h1]; exact hm⟩
  · rw [topLevel_dot] at hm
    exact absurd hm.symm hg

/-- Instance for the generator's own name. -/
theorem never_rewrites_to_pyopenapi_gen (c : ImpCtx) (lm : Str) (name : Option Str) (isTyping : Bool) (m : Str)
    (h : (classifyImport c lm name isTyping).module? = some m) (hm : topLevel m = s "pyopenapi_gen")
    (hout : ∀ o, c.outputPkg = some o → topLevel o ≠ s "pyopenapi_gen") :
    topLevel lm = s "pyopenapi_gen" := by
  rcases classification_never_rewrites_to_generator c lm name isTyping m _ (by decide) h hm with h1 | ⟨o, ho, h1⟩
  · exact h1
  · exact absurd h1 (hout o ho)

private def ctx0 : ImpCtx :=
  { corePkg := s "client.core", useAbs := true, outputPkg := some (s "client"),
    pkgRoot := some [s "tmp", s "client"], projectRoot := [s "tmp"],
    curFile := some [s "tmp", s "client", s "endpoints", s "pets.py"], tgtIsDir := false, builtinNames := [] }

example :
    classifyImport ctx0 (s "client.models.pet") (some (s "Pet")) false = .rel (s "..models.pet") (s "Pet") ∧
    classifyImport ctx0 (s "client.core.exceptions") (some (s "HTTPError")) false
      = .fromImport (s "client.core.exceptions") (s "HTTPError") ∧
    classifyImport ctx0 (s "json") (some (s "json")) false = .plain (s "json") ∧
    classifyImport ctx0 (s "requests") (some (s "get")) false = .fromImport (s "requests") (s "get") := by
  decide +kernel

end Pog.C12
