"""C08 — parsing cyclic and deep schema graphs terminates with balanced state.

vf.corr.parser ties the tracker/parser models to the real loader and evaluates C08's invariants on random schema graphs.  The model's
node language has no null / typeless nodes, so a second, implementation-only monitor below feeds documents with null property nodes,
null composition members and empty schemas and checks the rest state directly on the real tracker.
"""
from __future__ import annotations

import json

from .. import findings
from ..common import Run, rng
from . import _generic as g, _parser

PROP = "C08"


def monitor_doc(doc: dict, max_depth: int | None = None) -> list[str]:
    """Load `doc` with the real loader while watching the real tracker; returns violated invariants."""
    import os
    import warnings
    from pyopenapi_gen.core.parsing import unified_cycle_detection as ucd
    from pyopenapi_gen.core.parsing import schema_parser as sp
    bad: list[str] = []
    seen_ctx = {}
    orig_enter, orig_exit = ucd.unified_enter_schema, ucd.unified_exit_schema
    names_attr = [m for m in (sp,) if hasattr(m, "unified_enter_schema")]

    def enter(name, context, *a, **k):
        seen_ctx["ctx"] = context
        r = orig_enter(name, context, *a, **k)
        if context.recursion_depth < 0:
            bad.append(f"depth {context.recursion_depth} < 0 after enter({name!r})")
        return r

    def exit_(name, context, *a, **k):
        r = orig_exit(name, context, *a, **k)
        if context.recursion_depth < 0:
            bad.append(f"depth {context.recursion_depth} < 0 after exit({name!r})")
        return r
    old_env = os.environ.get("PYOPENAPI_MAX_DEPTH")
    if max_depth is not None:
        os.environ["PYOPENAPI_MAX_DEPTH"] = str(max_depth)
    ucd.unified_enter_schema, ucd.unified_exit_schema = enter, exit_
    for m in names_attr:
        m.unified_enter_schema, m.unified_exit_schema = enter, exit_
    try:
        from pyopenapi_gen.core.loader.loader import load_ir_from_spec
        with warnings.catch_warnings():
            warnings.simplefilter("ignore")
            try:
                ir = load_ir_from_spec(doc)
            except RecursionError:
                return ["RecursionError: the interpreter stack was exhausted"]
            except Exception as e:  # a visible failure is allowed unless it is the post-condition on declared names
                if "was not parsed" in str(e):
                    return [f"declared name missing: {e}"]
                return [f"load raised {type(e).__name__}: {str(e)[:160]}"]
        ctx = seen_ctx.get("ctx")
        if ctx is not None:
            if ctx.recursion_depth != 0:
                bad.append(f"recursion_depth = {ctx.recursion_depth} at rest")
            stack = list(getattr(ctx, "schema_stack", []))
            if stack:
                bad.append(f"schema_stack not empty at rest: {stack[:5]}")
            inprog = [n for n, st in getattr(ctx, "schema_states", {}).items() if "PROGRESS" in str(st).upper()]
            if inprog:
                bad.append(f"left IN_PROGRESS: {inprog[:5]}")
        from pyopenapi_gen.core.utils import NameSanitizer
        for n in doc.get("components", {}).get("schemas", {}):
            if n not in ir.schemas and NameSanitizer.sanitize_class_name(n) not in ir.schemas:
                bad.append(f"declared schema {n!r} absent from the result")
    finally:
        ucd.unified_enter_schema, ucd.unified_exit_schema = orig_enter, orig_exit
        for m in names_attr:
            m.unified_enter_schema, m.unified_exit_schema = orig_enter, orig_exit
        if max_depth is not None:
            if old_env is None:
                os.environ.pop("PYOPENAPI_MAX_DEPTH", None)
            else:
                os.environ["PYOPENAPI_MAX_DEPTH"] = old_env
    return bad


def null_docs(r, n: int):
    names = ["Alpha", "Beta", "Gamma", "Delta", "Omega", "Kappa"]
    for i in range(n):
        k = r.randint(2, 6)
        schemas = {}
        for j, nm in enumerate(r.sample(names, k)):
            props = {}
            for p in r.sample(["id", "name", "extra", "meta", "child", "note", "items"], r.randint(1, 4)):
                c = r.random()
                if c < 0.3:
                    props[p] = None                                   # YAML `extra:` with nothing after the colon
                elif c < 0.45:
                    props[p] = {}                                     # empty (typeless) schema
                elif c < 0.6 and schemas:
                    props[p] = {"$ref": f"#/components/schemas/{r.choice(list(schemas))}"}
                elif c < 0.7:
                    props[p] = {"type": "array", "items": r.choice([None, {}, {"type": "string"}])} if r.random() < 0.5 else {"type": "array"}
                elif c < 0.8:
                    props[p] = {"allOf": [None, {"type": "object", "properties": {"a": {"type": "string"}}}]}
                else:
                    props[p] = {"type": r.choice(["string", "integer", "boolean"])}
            schemas[nm] = {"type": "object", "properties": props}
        yield {"openapi": "3.0.3", "info": {"title": "N", "version": "1"}, "paths": {}, "components": {"schemas": schemas}}, r.choice([None, 3, 10])


def deep_chain_cases(r, n: int):
    """Chains S0 -> S1 -> ... far deeper than the depth limit; every level carries decorations declared BEFORE the downward
    reference (arrays of inline objects, self references, maps, inline objects, compositions) - the shapes that make
    `_parse_schema` return early or parse a node twice on the way down."""
    R = lambda n: {"r": n}                                  # noqa: E731
    prim = {"p": "string", "e": False}
    for i in range(n):
        length = r.choice([25, 60, 140, 400])
        md = r.choice([3, 10, 10])
        decls = []
        for k in range(length):
            me, nxt = f"S{k}", f"S{k + 1}"
            props = []
            for _ in range(r.randint(0, 2)):
                c = r.random()
                pn = f"d{len(props)}"
                if c < 0.3:
                    props.append([pn, {"i": {"o": [["v", prim]], "q": [], "a": None}}])       # array of inline objects
                elif c < 0.45:
                    props.append([pn, R(me)])                                                    # self reference
                elif c < 0.6:
                    props.append([pn, {"i": R(me)}])                                             # self reference through an array
                elif c < 0.7:
                    props.append([pn, {"o": None, "q": [], "a": prim}])                          # map
                elif c < 0.85:
                    props.append([pn, {"o": [["w", prim]], "q": [], "a": None}])                 # inline object
                else:
                    props.append([pn, prim])
            if k + 1 < length:
                props.append(["next", R(nxt) if r.random() < 0.7 else {"i": R(nxt)}])
            if r.random() < 0.3:
                r.shuffle(props)
            decls.append([me, {"o": props, "q": [], "a": None}])
        yield {"max_depth": md, "decls": decls}


def chain_failures(case: dict) -> list[str]:
    from ..corr import parser as P
    res = P.py_parse(case["max_depth"], P.ORACLE_FUEL, case["decls"])
    bad = []
    if res["raises"] == "RecursionError":
        return [f"more than {P.ORACLE_FUEL} nested _parse_schema calls (the interpreter stack is exhausted) although PYOPENAPI_MAX_DEPTH={case['max_depth']}"]
    if res["raises"]:
        bad.append(f"load raised {res['raises']}")
    # measured on the unchanged tree: anonymous nodes below the last named frame add at most 2 nested calls per inline level
    if res["maxNest"] > case["max_depth"] + 8:
        bad.append(f"{res['maxNest']} nested _parse_schema calls open at once with PYOPENAPI_MAX_DEPTH={case['max_depth']}: recursion is not cut at the depth limit")
    if not res["rest"] or res.get("_rest_violations"):
        bad.append("tracker not at rest after a top-level schema")
    if res.get("_neg"):
        bad.append("recursion_depth < 0")
    if any(v == "in_progress" for k, v in res["states"] if k):
        bad.append("a schema is left IN_PROGRESS")
    return bad


def check(run, ctx) -> None:
    known = findings.Known(run, PROP)
    _parser.run(run, ctx, PROP, known)
    rc = rng("C08:chains")
    nchain = ctx.budget(24, 200)
    for case in deep_chain_cases(rc, nchain):
        run.count({"chain": len(case["decls"]), "md": case["max_depth"], "h": hash(json.dumps(case["decls"]))}, nontrivial=True)
        run.dist("chain_length", str(len(case["decls"])))
        fails = chain_failures(case)
        if fails and len(run.violations) < 5:
            run.violation("input", {"chain_case": case}, observed=fails, expected="recursion cut by placeholders at the depth limit; tracker at rest",
                          what=f"chain of {len(case['decls'])} schemas (PYOPENAPI_MAX_DEPTH={case['max_depth']}): " + "; ".join(fails)[:300])
    run.cov.setdefault("oracle_evaluations", {})["deep-chain monitor on the real parser"] = nchain
    r = rng("C08:null")
    n = ctx.budget(150, 1500)
    nbad = 0
    for doc, md in null_docs(r, n):
        run.count({"doc": doc, "max_depth": md}, nontrivial=True)
        fails = monitor_doc(doc, md)
        if fails and len(run.violations) < 5:
            nbad += 1
            run.violation("input", {"null_doc": doc, "max_depth": md}, observed=fails, expected="tracker at rest (depth 0, empty stack, nothing IN_PROGRESS), every declared name present",
                          what=f"documents with null / empty schema nodes (PYOPENAPI_MAX_DEPTH={md}): " + "; ".join(fails)[:300])
    run.cov.setdefault("oracle_evaluations", {})["null-node monitor on the real tracker"] = n
    run.cov["rule"] = (run.cov.get("rule") or "") + " [deep-chain monitor] chains of 25/60/140/400 named schemas with early-return decorations before the downward reference, depth limits {3,10}: number of _parse_schema calls open at once (counted by a wrapper, independent of the tracker's own counter) <= limit + 8, no RecursionError, rest state [null-node monitor] random documents whose property / items / allOf nodes are null or empty, depth limits {default,3,10}; rest state checked on the real ParsingContext"
    known.report_unreplayed()


def search(run, ctx) -> None:
    check(run, ctx)


def replay(run, ctx, rec) -> bool:
    case = rec.get("case") or {}
    if "null_doc" in case:
        return bool(monitor_doc(case["null_doc"], case.get("max_depth")))
    if "chain_case" in case:
        return bool(chain_failures(case["chain_case"]))
    return g.replay_generic(rec)
