import Pog.Model.Basic
/-
  Model of annotation-text assembly:

    * `formatText`      = `UnifiedTypeService._format_resolved_type` on the TEXT of `ResolvedType.python_type`
                          (branch for branch: `startswith("Optional[")` raises, quoting of forward references,
                          the optional marker: ` | None` INSIDE the quotes of a text that is one string literal
                          (`isQuotedLit`), the ` | None` suffix otherwise)
    * `Ann`, `render`   : annotation syntax trees and their text
    * `formatResolved`  : the same function on trees (`render_formatResolved` in Lemmas ties it to `formatText`)
    * `listOf`/`unionOf`: `OpenAPISchemaResolver._resolve_array` / `_resolve_any_of` / `_resolve_one_of`
                          (how the item / member types are spliced into `List[…]` / `Union[…]`)
    * `resolveTree`     : `resolve_schema` on the fragment {primitive, named model (other file / same file),
                          array, anyOf/oneOf} used by the correspondence
    * `evalKind`/`evalOK`: what CPython 3.12 does when it evaluates the annotation eagerly (class-body time)
                          with every name bound                                            [TRUSTED: CPython]
-/
namespace Pog

/-! ## text level: `_format_resolved_type` -/

def optionalPrefix : Str := "Optional[".toList
def orNoneSuffix : Str := "| None".toList
def orNoneTail : Str := " | None".toList

/-- `t.startswith('"') and t.endswith('"') and t.count('"') == 2`: the text is ONE string literal. -/
def isQuotedLit (t : Str) : Bool := startsWith t ['"'] && endsWith t ['"'] && (t.count '"' == 2)

/-- `t[1:-1]` -/
def unquote (t : Str) : Str := (t.drop 1).dropLast

/-- `_format_resolved_type(ResolvedType(python_type, is_optional, is_forward_ref))`;
    `none` = the `ValueError` for a legacy `Optional[`. -/
def formatText (pythonType : Str) (isOptional isForwardRef : Bool) : Option Str :=
  if startsWith pythonType optionalPrefix then none else
  let t1 := if isForwardRef && !startsWith pythonType ['"'] then ['"'] ++ pythonType ++ ['"'] else pythonType
  let t2 := if isOptional && !endsWith t1 orNoneSuffix then
      (if isQuotedLit t1 then ['"'] ++ unquote t1 ++ orNoneTail ++ ['"'] else t1 ++ orNoneTail)
    else t1
  some t2

/-! ## annotation trees -/

inductive Ann where
  /-- a bare (possibly dotted) name -/
  | name (s : Str)
  /-- a string literal `"s"` (forward reference); it is a literal only when `s` holds no `"` itself -/
  | quoted (s : Str)
  /-- `head[a1, a2, …]` -/
  | sub (head : Ann) (args : List Ann)
  /-- `l | r` -/
  | bor (l r : Ann)
  /-- `None` -/
  | none_
  deriving Repr, Inhabited

mutual
  def render : Ann → Str
    | .name s => s
    | .quoted s => ['"'] ++ s ++ ['"']
    | .sub h args => render h ++ ['['] ++ renderArgs args ++ [']']
    | .bor l r => render l ++ " | ".toList ++ render r
    | .none_ => "None".toList
  /-- `", ".join(args)` -/
  def renderArgs : List Ann → Str
    | [] => []
    | [a] => render a
    | a :: b :: rest => render a ++ ", ".toList ++ renderArgs (b :: rest)
end

/-- `ResolvedType` with `python_type` as a tree. -/
structure Resolved where
  ty : Ann
  isOptional : Bool
  isForwardRef : Bool
  deriving Repr

/-- `f'"{python_type}"'` unless it already starts with a quote. -/
def quoteIfFwd (ty : Ann) (fwd : Bool) : Ann :=
  if fwd && !startsWith (render ty) ['"'] then .quoted (render ty) else ty

/-- `_format_resolved_type` on trees; `none` = ValueError. -/
def formatResolved (r : Resolved) : Option Ann :=
  if startsWith (render r.ty) optionalPrefix then none else
  let a := quoteIfFwd r.ty r.isForwardRef
  some (if r.isOptional && !endsWith (render a) orNoneSuffix then
          (if isQuotedLit (render a) then .quoted (unquote (render a) ++ orNoneTail) else .bor a .none_)
        else a)

/-! ## resolver assembly -/

/-- `_resolve_array` (items present): `List[<item>]`, the item quoted when it is a forward reference;
    the item is resolved with `required=True`, its own optional flag is dropped. -/
def listOf (item : Resolved) (required : Bool) : Resolved :=
  ⟨.sub (.name "List".toList) [quoteIfFwd item.ty item.isForwardRef], !required, false⟩

/-- `list(dict.fromkeys(texts))` on trees compared by their text. -/
def dedupByText : List Ann → List Str → List Ann
  | [], _ => []
  | a :: rest, seen =>
    if seen.contains (render a) then dedupByText rest seen else a :: dedupByText rest (render a :: seen)

/-- `_resolve_any_of` / `_resolve_one_of` for a non-empty member list (members resolved with `required=True`). -/
def unionOf (members : List Resolved) (required : Bool) : Resolved :=
  let ms := members.map (fun m => quoteIfFwd m.ty m.isForwardRef)
  match ms with
  | [single] => ⟨single, !required, false⟩
  | _ => ⟨.sub (.name "Union".toList) (dedupByText ms []), !required, false⟩

/-- The schema fragment driven through the real resolver by the correspondence. -/
inductive STree where
  /-- `type: integer|string|…` resolved to the given builtin name -/
  | prim (py : Str)
  /-- a named schema with `generation_name = cls`; `self = true` when it lives in the file being rendered -/
  | model (cls : Str) (self : Bool)
  | arr (item : STree)
  /-- `anyOf` / `oneOf` (non-empty) -/
  | union (members : List STree)
  deriving Repr, Inhabited

mutual
  /-- `OpenAPISchemaResolver.resolve_schema(schema, ctx, required)` on the fragment. -/
  def resolveTree : STree → Bool → Resolved
    | .prim py, req => ⟨.name py, !req, false⟩
    | .model cls self, req => ⟨.name cls, !req, self⟩
    | .arr item, req => listOf (resolveTree item true) req
    | .union ms, req => unionOf (resolveTrees ms) req
  def resolveTrees : List STree → List Resolved
    | [] => []
    | t :: ts => resolveTree t true :: resolveTrees ts
end

/-! ## CPython: eager evaluation of an annotation -/

/-- What an annotation expression evaluates to, as far as `|` and `[...]` care. -/
inductive Kind where
  /-- a class, a `types.GenericAlias` (`dict[str, X]`), a `types.UnionType`: the operands of the C-level `|` -/
  | ty
  /-- a `typing` object (`List[X]`, `Union[…]`, `Optional[…]`, `Literal[…]`, a `ForwardRef`): `|`/`r|` build a `typing.Union` -/
  | alias
  | noneV
  | strV
  deriving DecidableEq, Repr

/-- `typing` generics and their arity (`none` = any positive number of parameters). -/
def typingHeads : List (Str × Option Nat) :=
  [("List", some 1), ("Set", some 1), ("FrozenSet", some 1), ("Sequence", some 1), ("Iterator", some 1),
   ("AsyncIterator", some 1), ("Type", some 1), ("Dict", some 2), ("Mapping", some 2),
   ("Tuple", none), ("Literal", none), ("Union", none), ("Optional", some 1)].map
    (fun p => (p.1.toList, p.2))

/-- builtin generics: `types.GenericAlias`, no parameter checks. -/
def builtinHeads : List Str := ["dict", "list", "tuple", "set", "frozenset", "type"].map String.toList

/-- `a | b` -/
def orKind : Kind → Kind → Option Kind
  | .alias, _ => some .alias
  | _, .alias => some .alias
  | .ty, .ty => some .ty
  | .ty, .noneV => some .ty
  | .noneV, .ty => some .ty
  | _, _ => none

/-- The value of `Union[...]` after typing's flattening of equal members: one distinct member is returned itself. -/
def unionKind (distinct : List Kind) : Kind :=
  match distinct with
  | [.ty] => .ty
  | [.noneV] => .ty
  | _ => .alias

def dedupStr : List Str → List Str → List Str
  | [], _ => []
  | a :: rest, seen => if seen.contains a then dedupStr rest seen else a :: dedupStr rest (a :: seen)

/-- kinds of the members that are distinct by their text -/
def distinctKinds : List (Str × Kind) → List Str → List Kind
  | [], _ => []
  | (t, k) :: rest, seen => if seen.contains t then distinctKinds rest seen else k :: distinctKinds rest (t :: seen)

/-- `k1 | k2 | … | kn`, evaluated left to right (`|` is left-associative and `render` writes no parentheses). -/
def foldOr : List Kind → Option Kind
  | [] => none
  | k :: ks => ks.foldl (fun acc x => acc.bind (fun a => orKind a x)) (some k)

/-- `head[args]` given the kinds of the evaluated arguments (`none` = some argument raised). -/
def subKind (head : Ann) (args : List Ann) (kinds : Option (List Kind)) : Option Kind :=
  match head with
  | .name h =>
    (match kinds with
     | none => none
     | some [] => none
     | some ks =>
       if builtinHeads.contains h then some .ty
       else match typingHeads.lookup h with
         | none => none
         | some arity =>
           if (match arity with | some n => decide (ks.length = n) | none => true) then
             (if h = "Union".toList then some (unionKind (distinctKinds ((args.map render).zip ks) []))
              else if h = "Optional".toList then some (if ks = [.noneV] then .ty else .alias)
              else some .alias)
           else none)
  | _ => none

mutual
  /-- `none` = evaluating the expression raises (TypeError / SyntaxError). -/
  def evalKind : Ann → Option Kind
    | .name _ => some .ty
    | .quoted s => if s.contains '"' then none else some .strV
    | .none_ => some .noneV
    | .bor l r =>
      match evalOperands l, evalOperands r with
      | some a, some b => foldOr (a ++ b)
      | _, _ => none
    | .sub h args => subKind h args (evalKinds args)
  /-- the kinds of the operands of a (rendered, hence flat) chain `a | b | c` -/
  def evalOperands : Ann → Option (List Kind)
    | .name _ => some [.ty]
    | .quoted s => if s.contains '"' then none else some [.strV]
    | .none_ => some [.noneV]
    | .bor l r =>
      match evalOperands l, evalOperands r with
      | some a, some b => some (a ++ b)
      | _, _ => none
    | .sub h args => (subKind h args (evalKinds args)).map (fun k => [k])
  def evalKinds : List Ann → Option (List Kind)
    | [] => some []
    | a :: rest =>
      match evalKind a, evalKinds rest with
      | some k, some ks => some (k :: ks)
      | _, _ => none
end

/-- The annotation can be evaluated eagerly. -/
def evalOK (a : Ann) : Bool := (evalKind a).isSome

end Pog
