#!/bin/sh
# usage: tools/validate_mutant.sh <dir with patch.diff and demo.py> -> prints: demo_clean=<rc> demo_patched=<rc> suite_missing=<n>
D="$1"; WT=/tmp/mutval-$$
git -C /repo worktree add -q --detach "$WT" HEAD || exit 2
T=$(mktemp -d /tmp/mutvaltmp-XXXX)
sed "s#/tmp/mut/[a-z0-9_]*#$WT#g" "$D/demo.py" > "$T/demo.py"
( cd "$WT" && PYTHONPATH="$WT/src" TMPDIR="$T" timeout 600 /venv/bin/python "$T/demo.py" >"$T/clean.out" 2>&1 ); RC0=$?
git -C "$WT" apply "$D/patch.diff" || { echo "PATCH-FAIL"; git -C /repo worktree remove --force "$WT"; exit 2; }
( cd "$WT" && PYTHONPATH="$WT/src" TMPDIR="$T" timeout 600 /venv/bin/python "$T/demo.py" >"$T/patched.out" 2>&1 ); RC1=$?
( cd "$WT" && PYTHONPATH="$WT/src" TMPDIR="$T" /venv/bin/python -m pytest -q -p no:cacheprovider --timeout=900 --junitxml="$T/j.xml" >"$T/suite.out" 2>&1 )
MISSING=$(python3 - "$T/j.xml" <<'PY'
import json,sys,xml.etree.ElementTree as ET
passed=set()
for tc in ET.parse(sys.argv[1]).getroot().iter("testcase"):
    if not any(c.tag in ("failure","error","skipped") for c in tc): passed.add(f"{tc.get('classname')}::{tc.get('name')}")
b=json.load(open("/root/.vp/BASELINE.json"))["stable_pass"]
print(len(set(b)-passed))
PY
)
echo "$D demo_clean=$RC0 demo_patched=$RC1 suite_missing=$MISSING :: $(tail -1 "$T/patched.out" | cut -c1-120)"
git -C /repo worktree remove --force "$WT"; rm -rf "$T"
