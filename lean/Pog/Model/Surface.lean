import Pog.Model.Names
import Pog.Model.Stream
/-
  M-surface: the public surface of a generated client (C13, tag-grouping part of C07).

  TEXT LEVEL.  The Protocol stubs and the mock methods are not generated from the IR: they are
  cut out TEXTUALLY of the source of the real endpoint method.
    * `protoStub`  = the per-operation loop of `EndpointVisitor.generate_endpoint_protocol`
                     (visit/endpoint/endpoint_visitor.py:103-186); result = the arguments of the successive
                     `writer.write_line(...)` calls (the class writer adds one indentation level).
    * `toMock`     = `MockGenerator._transform_to_mock` (visit/endpoint/generators/mock_generator.py:47-140);
                     result = the lines of the private `CodeWriter`; `toMockCode` = its `get_code()`.
    * `returnsAsyncIter` = `returns_async_iterator` (visit/endpoint/generators/endpoint_method_generator.py; F47 repaired):
                     both transformers decide "async generator" by the return annotation of the line closing the signature
                     being `AsyncIterator[...]` itself.
    * `sigOf`      = a reader of the signature shape that `CodeWriter.write_function_signature`
                     (core/writers/code_writer.py:100-128) and `OverloadMethodGenerator` emit.  It is NOT part of
                     the generator: the correspondence checks it against CPython's own parser (`ast`).
    * `natureOf`   = coroutine / async generator / plain function, read off the text (`async def`, a `yield`
                     statement in the body after the docstring); checked against `inspect` on the compiled text.
  A method source is the list of its lines (`full_method_code.split("\n")`).

  GROUPING LEVEL.
    * `groupEndpoints` = `EndpointsEmitter.emit` (emitters/endpoints_emitter.py:172-219): ALL tags, key
                         `normalize_tag_key` (an operation is appended once per key), canonical tag `max(candidates, key=tag_score)`.
    * `tagMapVisitor`  = the same map recomputed by `ClientVisitor.visit` (visit/client_visitor.py:26-63).
    * `groupMocksRaw` / `groupMocks` = `MocksEmitter._group_operations_by_tag` + the loop of `emit` (emitters/mocks_emitter.py;
                         F23 repaired): the two dicts of the endpoints emitter once more (ALL tags, normalised key), the canonical
                         tag `max(candidates, key=_tag_score)` (a third copy of `tag_score`), groups in the order `sorted(keys)`.
                         Before the repair: FIRST tag only, RAW tag string.
    * `clientProps` / `mockClientProps` = the property names of `APIClient` (`for key in sorted(tag_map)`, modelled by the
                         stable insertion sort `sortKeys`) / `MockAPIClient` (the mock emitter's `tag_tuples`, in the order of
                         its groups).
-/
namespace Pog

/-! ## Small string helpers -/

/-- Python `pat in s`. -/
def txtHasSub (pat : Str) : Str → Bool
  | [] => pat.isEmpty
  | c :: cs => startsWith (c :: cs) pat || txtHasSub pat cs

def kAsyncDef : Str := ['a','s','y','n','c',' ','d','e','f',' ']
def kDef : Str := ['d','e','f',' ']
def kOverload : Str := ['@','o','v','e','r','l','o','a','d']
def kAsyncIteratorBr : Str := ['A','s','y','n','c','I','t','e','r','a','t','o','r','[']
def kCloseArrow : Str := [')',' ','-','>',' ']
def kStubEnd : Str := [':',' ','.','.','.']
def kArrow : Str := [' ','-','>',' ']
def kIndent4 : Str := [' ',' ',' ',' ']

/-- `stripped.startswith("@overload")` -/
def isOvlLine (s : Str) : Bool := startsWith s kOverload
/-- `stripped.startswith("async def ") and "(" in stripped` -/
def isAsyncHdr (s : Str) : Bool := startsWith s kAsyncDef && s.contains '('
/-- `stripped.startswith("def ") and "(" in stripped` -/
def isDefHdr (s : Str) : Bool := startsWith s kDef && s.contains '('
/-- `sig_stripped.endswith(":") and not sig_stripped.endswith(",")` (the second conjunct is implied). -/
def endsColon (s : Str) : Bool := endsWith s [':'] && !endsWith s [',']
/-- `sig_stripped.endswith(": ...")` -/
def endsStub (s : Str) : Bool := endsWith s kStubEnd

/-- Split at the first occurrence of `sep` (Python `s.partition(sep)`): `none` when absent. -/
def txtSplitAt1 (sep : Str) : Str → Option (Str × Str)
  | [] => if sep.isEmpty then some ([], []) else none
  | c :: cs =>
    if startsWith (c :: cs) sep then some ([], (c :: cs).drop sep.length)
    else (txtSplitAt1 sep cs).map (fun p => (c :: p.1, p.2))

/-- `returns_async_iterator(signature_end)` (visit/endpoint/generators/endpoint_method_generator.py, F47 repaired):
    `signature_end.partition(") -> ")[2].startswith("AsyncIterator[")` — the return annotation of the line closing a
    rendered signature IS `AsyncIterator[...]` (before the repair both callers tested `"AsyncIterator" in <text>`). -/
def returnsAsyncIter (line : Str) : Bool :=
  match txtSplitAt1 kCloseArrow line with
  | some p => startsWith p.2 kAsyncIteratorBr
  | none => false

/-! ## `generate_endpoint_protocol`: the stub of one operation -/

/-- What is written once the line closing the signature has been found (`signature_lines` = `sigs`, non-empty). -/
def protoEmit (sigs : List Str) : List Str :=
  let last := sigs.getLast?.getD []
  let isGen := returnsAsyncIter last                    -- `returns_async_iterator(sig_stripped)`: the LAST line
  let init := match sigs.dropLast with
    | [] => []                                       -- one-line signature: `async` is never removed
    | f :: r => (if isGen && startsWith f kAsyncDef then kDef ++ f.drop kAsyncDef.length else f) :: r
  let last' := if endsWith last [':'] then last.dropLast else last
  init ++ [last' ++ kStubEnd, []]

inductive ProtoMode
  | scan                       -- outer `while`
  | ovl                        -- inside an `@overload` block, looking for `: ...`
  | sig (acc : List Str)       -- collecting `signature_lines`

/-- The `while i < len(lines)` loops, one line at a time.  Reaching the end of the text inside a
    signature writes nothing (the collected lines are dropped). -/
def protoGo : ProtoMode → List Str → List Str
  | _, [] => []
  | .scan, l :: ls =>
    let s := stripWs l
    if isOvlLine s then s :: protoGo .ovl ls
    else if isAsyncHdr s then
      if endsColon s then protoEmit [s] else protoGo (.sig [s]) ls
    else protoGo .scan ls
  | .ovl, l :: ls =>
    let s := stripWs l
    if endsStub s then s :: [] :: protoGo .scan ls else s :: protoGo .ovl ls
  | .sig acc, l :: ls =>
    let s := stripWs l
    if endsColon s then protoEmit (acc ++ [s]) else protoGo (.sig (acc ++ [s])) ls

def protoStub (lines : List Str) : List Str := protoGo .scan lines

/-! ## `_transform_to_mock` -/

def mockDoc : List Str := [
  "\"\"\"".toList,
  "Mock implementation that raises NotImplementedError.".toList,
  [],
  "Override this method in your test subclass to provide".toList,
  "the behavior needed for your test scenario.".toList,
  "\"\"\"".toList]

def mockRaise (cls meth : Str) : Str :=
  "raise NotImplementedError(\"".toList ++ cls ++ ['.'] ++ meth ++
    "() not implemented. Override this method in your test subclass.\")".toList

def mockYield : Str := "yield  # pragma: no cover".toList

/-- The body written at indentation level 1 (`write_line("")` yields the bare indentation). -/
def mockBody (cls meth : Str) (isGen : Bool) : List Str :=
  (mockDoc ++ [mockRaise cls meth] ++ (if isGen then [mockYield] else [])).map (kIndent4 ++ ·)

/-- The inner `while temp_i < len(lines)` loop: the stripped lines up to the one closing the signature;
    `false` = the end of the text was reached first (then every remaining line is a "signature line"). -/
def mockCollect : List Str → List Str × Bool
  | [] => ([], false)
  | l :: ls =>
    let s := stripWs l
    if endsColon s then ([s], true)
    else let r := mockCollect ls; (s :: r.1, r.2)

inductive MockMode
  | scan
  | ovl

def mockGo (cls meth : Str) : MockMode → List Str → List Str
  | _, [] => []
  | .scan, l :: ls =>
    let s := stripWs l
    if isOvlLine s then s :: mockGo cls meth .ovl ls
    else if isAsyncHdr s || isDefHdr s then
      let r := mockCollect (l :: ls)
      -- `returns_async_iterator(sig_stripped)` on the line that closed the signature (the last one collected)
      let isGen := r.2 && returnsAsyncIter (r.1.getLast?.getD [])
      r.1 ++ mockBody cls meth isGen
    else mockGo cls meth .scan ls
  | .ovl, l :: ls =>
    let s := stripWs l
    if endsStub s then s :: [] :: mockGo cls meth .scan ls else s :: mockGo cls meth .ovl ls

/-- Lines of the private writer of `_transform_to_mock` (signature at level 0, body at level 1). -/
def toMock (cls meth : Str) (lines : List Str) : List Str := mockGo cls meth .scan lines

/-- `"\n".join(lines + [""]).rstrip("\n")` — `CodeWriter.get_code()`. -/
def writerGetCode (ls : List Str) : Str := rstripC '\n' (joinWith ['\n'] (ls ++ [[]]))

def toMockCode (cls meth : Str) (lines : List Str) : Str := writerGetCode (toMock cls meth lines)

/-- The class named in the error message: `f"Mock{sanitize_class_name(op.tags[0] if op.tags else 'Client')}Client"`. -/
def mockErrClass (tags : List Str) : Str :=
  "Mock".toList ++ sanClass (tags.head?.getD "Client".toList) ++ "Client".toList

/-! ## Reading a signature -/

structure SigParam where
  name : Str
  ann : Option Str
  dflt : Option Str
  kwOnly : Bool
  deriving DecidableEq, Repr

structure MethodSig where
  isAsync : Bool
  name : Str
  params : List SigParam
  ret : Option Str
  /-- `true` = one parameter per line (`name(` … `) -> R:`), `false` = the one-line form `name(self) -> R:` -/
  multiLine : Bool
  deriving DecidableEq, Repr

/-- `async def NAME(REST` / `def NAME(REST`  →  (isAsync, NAME, REST) -/
def parseDefHeader (s : Str) : Option (Bool × Str × Str) :=
  if startsWith s kAsyncDef then (txtSplitAt1 ['('] (s.drop kAsyncDef.length)).map (fun p => (true, p.1, p.2))
  else if startsWith s kDef then (txtSplitAt1 ['('] (s.drop kDef.length)).map (fun p => (false, p.1, p.2))
  else none

/-- `)…` closing line: `):`, `) -> R:`, and the stub forms `): ...`, `) -> R: ...`.
    `none` = not a closing line; `some none` = no return annotation. -/
def parseSigClose (s : Str) : Option (Option Str) :=
  match s with
  | ')' :: t =>
    let t := if endsStub t then t.take (t.length - 4) else t
    if endsWith t [':'] then
      let u := t.dropLast
      if u.isEmpty then some none
      else if startsWith u kArrow then some (some (u.drop kArrow.length))
      else none
    else none
  | _ => none

/-- One parameter `name`, `name: ann`, `name: ann = default` (trailing comma already removed). -/
def parseSigParam (kw : Bool) (p : Str) : SigParam :=
  match txtSplitAt1 [':'] p with
  | none =>
    match txtSplitAt1 [' ','=',' '] p with
    | none => ⟨p, none, none, kw⟩
    | some (n, d) => ⟨n, none, some d, kw⟩
  | some (n, rest) =>
    let rest := lstripWs rest
    match txtSplitAt1 [' ','=',' '] rest with
    | none => ⟨n, some rest, none, kw⟩
    | some (a, d) => ⟨n, some a, some d, kw⟩

def dropTrailComma (s : Str) : Str := if endsWith s [','] then s.dropLast else s

/-- Parameter lines up to the closing line. -/
def sigParams : List SigParam → Bool → List Str → Option (List SigParam × Option Str)
  | _, _, [] => none
  | acc, kw, l :: ls =>
    let s := stripWs l
    if startsWith s [')'] then (parseSigClose s).map (fun r => (acc.reverse, r))
    else
      let p := dropTrailComma s
      if p == ['*'] then sigParams acc true ls
      else sigParams (parseSigParam kw p :: acc) kw ls

/-- After the header line. -/
def sigAfterHeader (h : Bool × Str × Str) (ls : List Str) : Option MethodSig :=
  if h.2.2.isEmpty then
    (sigParams [] false ls).map (fun r => ⟨h.1, h.2.1, r.1, r.2, true⟩)
  else
    -- the one-line form of `write_function_signature` (no arguments): literally `(self)…`
    match txtSplitAt1 [')'] h.2.2 with
    | some (ps, rest) =>
      if ps == "self".toList then
        (parseSigClose (')' :: rest)).map (fun r => ⟨h.1, h.2.1, [⟨ps, none, none, false⟩], r, false⟩)
      else none
    | none => none

/-- `true` = inside an `@overload` block. -/
def sigGo : Bool → List Str → Option MethodSig
  | _, [] => none
  | true, l :: ls => if endsStub (stripWs l) then sigGo false ls else sigGo true ls
  | false, l :: ls =>
    let s := stripWs l
    if isOvlLine s then sigGo true ls
    else match parseDefHeader s with
      | some h => sigAfterHeader h ls
      | none => sigGo false ls

/-- The signature of the (non-overload) `def` of a method text. -/
def sigOf (lines : List Str) : Option MethodSig := sigGo false lines

/-! ### Body and nature -/

/-- The lines after the line closing the signature. -/
def bodyAfterSig : List Str → List Str
  | [] => []
  | l :: ls => if endsColon (stripWs l) then ls else bodyAfterSig ls

def bodyGo : Bool → List Str → List Str
  | _, [] => []
  | true, l :: ls => if endsStub (stripWs l) then bodyGo false ls else bodyGo true ls
  | false, l :: ls =>
    let s := stripWs l
    if isOvlLine s then bodyGo true ls
    else if (parseDefHeader s).isSome then bodyAfterSig (l :: ls)
    else bodyGo false ls

/-- The body lines of the (non-overload) `def`. -/
def bodyOf (lines : List Str) : List Str := bodyGo false lines

def kTriple : Str := ['"','"','"']

/-- Skip a leading docstring (`"""` … `"""`, or a one-line `"""…"""`). -/
def skipDocGo : List Str → List Str
  | [] => []
  | l :: ls => if txtHasSub kTriple l then ls else skipDocGo ls

def skipDoc : List Str → List Str
  | [] => []
  | l :: ls =>
    let s := stripWs l
    if startsWith s kTriple then
      if txtHasSub kTriple (s.drop 3) then ls else skipDocGo ls
    else l :: ls

def kYield : Str := ['y','i','e','l','d']

/-- A `yield` statement: the stripped line is `yield` or starts with `yield `. -/
def isYieldLine (l : Str) : Bool :=
  let s := stripWs l
  s == kYield || startsWith s (kYield ++ [' '])

inductive MethodNature | plain | coroutine | asyncGen | generator
  deriving DecidableEq, Repr

def natureOf (lines : List Str) : Option MethodNature :=
  (sigOf lines).map fun sg =>
    let y := (skipDoc (bodyOf lines)).any isYieldLine
    match sg.isAsync, y with
    | true, true => .asyncGen
    | true, false => .coroutine
    | false, true => .generator
    | false, false => .plain

/-! ### The shape the generator emits -/

/-- Parameter lines, then the closing line; the body is unconstrained. -/
def wfParams : List Str → Bool
  | [] => false
  | l :: ls =>
    let s := stripWs l
    if endsColon s then startsWith s [')'] && (parseSigClose s).isSome
    else !startsWith s [')'] && wfParams ls

/-- `true` = inside an `@overload` block. -/
def wfGo : Bool → List Str → Bool
  | _, [] => false
  | true, l :: ls => if endsStub (stripWs l) then wfGo false ls else wfGo true ls
  | false, l :: ls =>
    let s := stripWs l
    if isOvlLine s then wfGo true ls
    else if isAsyncHdr s then
      match parseDefHeader s with
      | some h => h.2.2.isEmpty && !endsColon s && wfParams ls
      | none => false
    else (parseDefHeader s).isNone && wfGo false ls

/-- The text shape of `EndpointMethodGenerator.generate`: optional `@overload` blocks (each closed by a line
    ending in `: ...`), lines that are no `def` header (blank lines), then `async def name(`, parameter lines
    (none ends with `:` or starts with `)`), a closing line `) -> R:` / `):`, and any body. -/
def WellFormedMethod (lines : List Str) : Bool := wfGo false lines

/-! ## Grouping -/

structure TagOp where
  id : Str
  tags : List Str
  deriving DecidableEq, Repr

/-- `d.setdefault(k, []).append(v)` on an insertion-ordered dict. -/
def tagAddMulti {α : Type} : List (Str × List α) → Str → α → List (Str × List α)
  | [], k, v => [(k, [v])]
  | (k', vs) :: rest, k, v =>
    if k' == k then (k', vs ++ [v]) :: rest else (k', vs) :: tagAddMulti rest k v

def tagDictGet {α : Type} (d : List (Str × α)) (k : Str) : Option α :=
  (d.find? (fun e => e.1 == k)).map (·.2)

def kDefaultTag : Str := "default".toList

/-- `op.tags or ["default"]` -/
def tagsOrDefault (op : TagOp) : List Str := if op.tags.isEmpty then [kDefaultTag] else op.tags

/-- The inner loop `for tag in tags:` for one operation, with the per-operation set `keys_of_op`, as (key, tag, `some id` iff the
    operation is appended to `tag_key_to_ops[key]` at this tag, i.e. `key not in keys_of_op`). -/
def opTagPairs (u : UInfo) (id : Str) : List Str → List Str → List (Str × Str × Option Str)
  | _, [] => []
  | keysOfOp, t :: ts =>
    let k := normTagKey u t
    if keysOfOp.contains k then (k, t, none) :: opTagPairs u id keysOfOp ts
    else (k, t, some id) :: opTagPairs u id (k :: keysOfOp) ts

/-- The iteration space of `for op in operations: for tag in tags:` as (key, tag, the op id when the operation is appended). -/
def tagPairs (u : UInfo) (ops : List TagOp) : List (Str × Str × Option Str) :=
  ops.flatMap fun op => opTagPairs u op.id [] (tagsOrDefault op)

/-- `tag_key_to_ops`: `if key not in keys_of_op: keys_of_op.add(key); tag_key_to_ops.setdefault(key, []).append(op)` -/
def keyToOps (u : UInfo) (ops : List TagOp) : List (Str × List Str) :=
  (tagPairs u ops).foldl (fun d p => match p.2.2 with
    | some id => tagAddMulti d p.1 id
    | none => d) []

/-- `tag_key_to_candidates` (emitter) / `tag_candidates` (client visitor) -/
def keyToCands (u : UInfo) (ops : List TagOp) : List (Str × List Str) :=
  (tagPairs u ops).foldl (fun d p => tagAddMulti d p.1 p.2.1) []

/-! ### `tag_score` -/

/-- `re.search(r"[a-z][A-Z]", t)` -/
def hasLowerUpper : Str → Bool
  | [] => false
  | [_] => false
  | a :: b :: rest => (isLowerA a && isUpperA b) || hasLowerUpper (b :: rest)

/-- `re.search(r"[A-Z]{2,}", t)` -/
def hasTwoUpper : Str → Bool
  | [] => false
  | [_] => false
  | a :: b :: rest => (isUpperA a && isUpperA b) || hasTwoUpper (b :: rest)

/-- number of non-empty pieces of `re.split(r"[_-]+", t)` : maximal runs of other characters. -/
def countPieces : Bool → Str → Nat
  | _, [] => 0
  | inPiece, c :: cs =>
    if c == '_' || c == '-' then countPieces false cs
    else (if inPiece then 0 else 1) + countPieces true cs

structure TagScore where
  pascal : Bool
  words : Nat
  upper : Nat
  tag : Str
  deriving DecidableEq, Repr

/-- The local function `tag_score`.  `re.findall(r"[A-Z]?[a-z]+|[A-Z]+(?![a-z])|[0-9]+", t)` yields the same
    tokens as the module-name tokenizer `tokenize` (a capital run followed by a lower-case letter gives up its
    last capital to the next word in both; checked by the correspondence on `tagScore`). -/
def tagScore (u : UInfo) (t : Str) : TagScore :=
  { pascal := hasLowerUpper t || hasTwoUpper t
    words := (tokenize t).length + countPieces false t
    upper := (t.filter (fun c => if isAscii c then isUpperA c else u.isupper c)).length
    tag := t }

/-- Python `str <` (code-point lexicographic). -/
def pyStrLt : Str → Str → Bool
  | [], [] => false
  | [], _ :: _ => true
  | _ :: _, [] => false
  | a :: as, b :: bs => a.toNat < b.toNat || (a == b && pyStrLt as bs)

def pyStrLe (a b : Str) : Bool := !pyStrLt b a

/-- tuple `<` on `(bool, int, int, str)` -/
def scoreLt (a b : TagScore) : Bool :=
  (!a.pascal && b.pascal) || (a.pascal == b.pascal &&
    (a.words < b.words || (a.words == b.words &&
      (a.upper < b.upper || (a.upper == b.upper && pyStrLt a.tag b.tag)))))

/-- `max(xs, key=…)` keeping the FIRST maximal element (replace only on a strictly greater key). -/
def maxGo (u : UInfo) : Str → List Str → Str
  | best, [] => best
  | best, x :: xs => if scoreLt (tagScore u best) (tagScore u x) then maxGo u x xs else maxGo u best xs

/-- `none` = `max([])` raises `ValueError`. -/
def pyMaxTag (u : UInfo) : List Str → Option Str
  | [] => none
  | x :: xs => some (maxGo u x xs)

/-- `tag_map` of `EndpointsEmitter.emit` (the `if candidates:` guard falls back to `"default"`). -/
def tagMapEmitter (u : UInfo) (ops : List TagOp) : List (Str × Str) :=
  (keyToCands u ops).map fun e => (e.1, (pyMaxTag u e.2).getD kDefaultTag)

/-- `tag_map` of `ClientVisitor.visit` (no guard: `none` = `ValueError`). -/
def tagMapVisitor (u : UInfo) (ops : List TagOp) : Option (List (Str × Str)) :=
  (keyToCands u ops).mapM fun e => (pyMaxTag u e.2).map fun b => (e.1, b)

structure TagGroup where
  key : Str
  canon : Str
  module : Str
  cls : Str
  ops : List Str
  deriving DecidableEq, Repr

def kClientSuffix : Str := "Client".toList

def mkGroup (u : UInfo) (key canon : Str) (ops : List Str) : TagGroup :=
  { key := key, canon := canon, module := sanModule u canon, cls := sanClass canon ++ kClientSuffix, ops := ops }

/-- The loop `for key, ops_for_tag in tag_key_to_ops.items()`; `none` = `tag_map[key]` raises `KeyError`. -/
def groupEndpointsRaw (u : UInfo) (ops : List TagOp) : Option (List TagGroup) :=
  let tm := tagMapEmitter u ops
  (keyToOps u ops).mapM fun e => (tagDictGet tm e.1).map fun c => mkGroup u e.1 c e.2

/-- The same, with the two dicts that the code updates in the same loop fused into one: every (key, tag) incidence carries the
    tag and, when the operation is appended there, its id
    (`Pog.groupEndpointsRaw_eq` : `groupEndpointsRaw u ops = some (groupEndpoints u ops)`). -/
def keyToPairs (u : UInfo) (ops : List TagOp) : List (Str × List (Str × Option Str)) :=
  (tagPairs u ops).foldl (fun d p => tagAddMulti d p.1 p.2) []

def groupEndpoints (u : UInfo) (ops : List TagOp) : List TagGroup :=
  (keyToPairs u ops).map fun e =>
    mkGroup u e.1 ((pyMaxTag u (e.2.map (·.1))).getD kDefaultTag) (e.2.filterMap (·.2))

/-- `sorted(keys)` as a stable insertion sort (structural, so that closed instances evaluate by `decide`). -/
def insertKey (k : Str) : List Str → List Str
  | [] => [k]
  | x :: xs => if pyStrLe k x then k :: x :: xs else x :: insertKey k xs

def sortKeys (l : List Str) : List Str := l.foldr insertKey []

/-- `MocksEmitter._group_operations_by_tag` + the loop of `emit` (F23 repaired): `ops_by_key` / `candidates_by_key` are built by
    the loop of the endpoints emitter (`keyToOps`, `keyToCands`); then
    `[(max(candidates_by_key[key], key=_tag_score), ops_by_key[key]) for key in sorted(ops_by_key)]`, and `emit` names module and
    class from that canonical tag.  `none` = `candidates_by_key[key]` raised `KeyError` or `max([])` raised `ValueError`. -/
def groupMocksRaw (u : UInfo) (ops : List TagOp) : Option (List TagGroup) :=
  let k2o := keyToOps u ops
  let k2c := keyToCands u ops
  (sortKeys (k2o.map (·.1))).mapM fun k =>
    (tagDictGet k2c k).bind fun cands => (pyMaxTag u cands).bind fun c =>
      (tagDictGet k2o k).map fun os => mkGroup u k c os

/-- The same, total: the groups of the endpoints emitter, taken in the order of their keys
    (`Pog.groupMocksRaw_eq` : `groupMocksRaw u ops = some (groupMocks u ops)`). -/
def groupMocks (u : UInfo) (ops : List TagOp) : List TagGroup :=
  let gs := groupEndpoints u ops
  (sortKeys (gs.map (·.key))).filterMap fun k => gs.find? (fun g => g.key == k)

/-- (module, class, operation ids) per tag client — file `endpoints/<module>.py` resp.
    `mocks/endpoints/mock_<module>.py`, class `<cls>` resp. `Mock<cls>`. -/
def surfaces (gs : List TagGroup) : List (Str × Str × List Str) := gs.map fun g => (g.module, g.cls, g.ops)

/-- Property names of `APIClient`: `for key in sorted(tag_map)` → module name of `tag_map[key]`, with the
    visitor's own `tag_map` (`none` = its `max` raised). -/
def clientProps (u : UInfo) (ops : List TagOp) : Option (List Str) :=
  (tagMapVisitor u ops).map fun tm =>
    (sortKeys (tm.map (·.1))).filterMap fun k => (tagDictGet tm k).map (sanModule u)

/-- Property names (= constructor parameter names) of `MockAPIClient`: the mock emitter's `tag_tuples`. -/
def mockClientProps (u : UInfo) (ops : List TagOp) : List Str := (groupMocks u ops).map (·.module)

end Pog
