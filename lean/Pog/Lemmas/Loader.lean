import Pog.Model.Loader
/-
  Lemmas about `Pog.Loader` (the inside of one operation of `parse_operations`) used by `Pog.Props.Loader`.
-/
namespace Pog.Loader
open Pog Pog.Ops

/-! ### association lists -/

theorem aget_mem {α : Type} (d : List (Str × α)) (k : Str) (v : α) (h : aget d k = some v) : (k, v) ∈ d := by
  induction d with
  | nil => simp [aget] at h
  | cons kv rest ih =>
    obtain ⟨k', v'⟩ := kv
    simp only [aget] at h
    by_cases e : k' = k
    · simp only [e, if_true, Option.some.injEq] at h; subst e; subst h; simp
    · simp only [e, if_false] at h; exact List.mem_cons_of_mem _ (ih h)

theorem aget_isSome_iff {α : Type} (d : List (Str × α)) (k : Str) : (aget d k).isSome = true ↔ k ∈ d.map (·.1) := by
  induction d with
  | nil => simp [aget]
  | cons kv rest ih =>
    obtain ⟨k', v'⟩ := kv
    simp only [aget, List.map_cons, List.mem_cons]
    by_cases e : k' = k
    · simp [e]
    · simp only [e, if_false, ih]
      constructor
      · exact Or.inr
      · rintro (h | h)
        · exact absurd h.symm e
        · exact h

/-- Looking a key up does not depend on the order of the OTHER entries. -/
theorem aget_perm {α : Type} {d d' : List (Str × α)} (hp : d.Perm d') (hn : (d.map (·.1)).Nodup) (k : Str) :
    aget d k = aget d' k := by
  induction hp with
  | nil => rfl
  | cons x _ ih =>
    obtain ⟨k', v⟩ := x
    simp only [List.map_cons, List.nodup_cons] at hn
    simp only [aget]
    split
    · rfl
    · exact ih hn.2
  | swap x y l =>
    obtain ⟨kx, vx⟩ := x
    obtain ⟨ky, vy⟩ := y
    simp only [List.map_cons, List.nodup_cons, List.mem_cons, not_or] at hn
    simp only [aget]
    by_cases h1 : ky = k
    · by_cases h2 : kx = k
      · exact absurd (h1.trans h2.symm) hn.1.1
      · simp [h1, h2]
    · by_cases h2 : kx = k
      · simp [h1, h2]
      · simp [h1, h2]
  | trans h1 _ ih1 ih2 =>
    rw [ih1 hn]
    exact ih2 ((h1.map (·.1)).nodup_iff.mp hn)

/-! ### the tables enter only through `aget` -/

theorem refOr_congr {t t' : List (Str × JsonV)} (h : ∀ k, aget t k = aget t' k) (n : Str) (d : JsonV) :
    refOr t n d = refOr t' n d := by
  simp only [refOr, h]

theorem resolveParam_congr {t t' : List (Str × JsonV)} (h : ∀ k, aget t k = aget t' k) (p : JsonV) :
    resolveParam t p = resolveParam t' p := by
  unfold resolveParam
  split
  · split
    · rw [refOr_congr h]
    · rfl
  · rfl

theorem resolveBody_congr {t t' : List (Str × JsonV)} (h : ∀ k, aget t k = aget t' k) (p : JsonV) :
    resolveBody t p = resolveBody t' p := by
  unfold resolveBody
  split
  · split
    · rw [refOr_congr h]
    · rfl
  · rfl

theorem resolveResponse_congr {t t' : List (Str × JsonV)} (h : ∀ k, aget t k = aget t' k) (p : JsonV) :
    resolveResponse t p = resolveResponse t' p := by
  unfold resolveResponse
  split
  · split
    · rw [refOr_congr h]
    · rfl
  · rfl

theorem parseParams_congr (orc : Oracle) {t t' : List (Str × JsonV)} (h : ∀ k, aget t k = aget t' k) (opId : Str)
    (ps : List JsonV) : parseParams orc t opId ps = parseParams orc t' opId ps := by
  induction ps with
  | nil => rfl
  | cons p ps ih => simp only [parseParams, resolveParam_congr h, ih]

theorem parseBody_congr (orc : Oracle) {t t' : List (Str × JsonV)} (h : ∀ k, aget t k = aget t' k) (opId : Str)
    (rb : JsonV) : parseBody orc t opId rb = parseBody orc t' opId rb := by
  simp only [parseBody, resolveBody_congr h]

theorem parseBodyOpt_congr (orc : Oracle) {t t' : List (Str × JsonV)} (h : ∀ k, aget t k = aget t' k) (opId : Str)
    (rb : Option JsonV) : parseBodyOpt orc t opId rb = parseBodyOpt orc t' opId rb := by
  cases rb with
  | none => rfl
  | some rb => simp only [parseBodyOpt, parseBody_congr orc h]

theorem parseResponses_congr (u : UInfo) (orc : Oracle) {t t' : List (Str × JsonV)} (h : ∀ k, aget t k = aget t' k)
    (opId : Str) (rs : List (StatusKey × JsonV)) :
    parseResponses u orc t opId rs = parseResponses u orc t' opId rs := by
  induction rs with
  | nil => rfl
  | cons r rs ih =>
    obtain ⟨sc, rn⟩ := r
    simp only [parseResponses, resolveResponse_congr h, ih]

/-- `parseOp` reads the component tables only by looking keys up. -/
theorem parseOp_congr (u : UInfo) (orc : Oracle) (c c' : Comps) (i : OpIn)
    (h1 : ∀ k, aget c.parameters k = aget c'.parameters k)
    (h2 : ∀ k, aget c.responses k = aget c'.responses k)
    (h3 : ∀ k, aget c.requestBodies k = aget c'.requestBodies k) :
    parseOp u orc c i = parseOp u orc c' i := by
  simp only [parseOp, parseParams_congr orc h1, parseBodyOpt_congr orc h3, parseResponses_congr u orc h2]

/-! ### decomposition of a successful `parseOp` -/

theorem parseOp_ok {u : UInfo} {orc : Oracle} {c : Comps} {i : OpIn} {out : OpOut} (h : parseOp u orc c i = .ok out) :
    ∃ base ev1 own ev2 body ev3 resps ev4,
      parseParams orc c.parameters i.opId i.pathParams = .ok (base, ev1) ∧
      parseParams orc c.parameters i.opId i.params = .ok (own, ev2) ∧
      parseBodyOpt orc c.requestBodies i.opId i.requestBody = .ok (body, ev3) ∧
      parseResponses u orc c.responses i.opId (normResponses i.responses) = .ok (resps, ev4) ∧
      out = ⟨mergeParams base own, body, resps, ev1 ++ ev2 ++ ev3 ++ ev4⟩ := by
  unfold parseOp at h
  split at h
  · cases h
  · rename_i base ev1 h1
    split at h
    · cases h
    · rename_i own ev2 h2
      split at h
      · cases h
      · rename_i body ev3 h3
        split at h
        · cases h
        · rename_i resps ev4 h4
          injection h with h
          exact ⟨base, ev1, own, ev2, body, ev3, resps, ev4, h1, h2, h3, h4, h.symm⟩

/-! ### responses: status codes and content keys -/

theorem parseResponse_status {u : UInfo} {orc : Oracle} {opId : Str} {sc : StatusKey} {node : JsonV} {r : IRResp}
    {ev : List Event} (h : parseResponse u orc opId sc node = .ok (r, ev)) : sc = .strKey r.status := by
  unfold parseResponse at h
  split at h
  · cases h
  · cases h
  · split at h
    · split at h
      · cases h
      · split at h
        · cases h
        · unfold respOfContent at h
          split at h
          · cases h
          · injection h with h
            injection h with h _
            rw [← h]
    · cases h

theorem parseResponses_status {u : UInfo} {orc : Oracle} {tbl : List (Str × JsonV)} {opId : Str} :
    ∀ {rs : List (StatusKey × JsonV)} {out : List IRResp} {evs : List Event},
      parseResponses u orc tbl opId rs = .ok (out, evs) → rs.map (·.1) = out.map (fun r => StatusKey.strKey r.status) := by
  intro rs
  induction rs with
  | nil =>
    intro out evs h
    simp only [parseResponses] at h
    injection h with h
    injection h with h _
    subst h
    rfl
  | cons x rest ih =>
    intro out evs h
    obtain ⟨sc, rn⟩ := x
    simp only [parseResponses] at h
    split at h
    · cases h
    · rename_i r ev h1
      split at h
      · cases h
      · rename_i rs' evs' h2
        injection h with h
        injection h with h _
        subst h
        simp only [List.map_cons, List.cons.injEq]
        exact ⟨parseResponse_status h1, ih h2⟩

/-- total version of `respMedia` (the placeholder where it raises): only used to state what a successful content loop
    returns -/
def entryOf (orc : Oracle) (promo : Str) (mn : JsonV) : ContentEntry :=
  match respMedia orc promo mn with
  | .ok c => c
  | .error _ => .placeholder

theorem respContent_eq_map {orc : Oracle} {promo : Str} :
    ∀ {c : List (Str × JsonV)} {content : List (Str × ContentEntry)},
      respContent orc promo c = .ok content → content = c.map (fun x => (x.1, entryOf orc promo x.2)) := by
  intro c
  induction c with
  | nil => intro content h; simp only [respContent] at h; injection h with h; subst h; rfl
  | cons x rest ih =>
    intro content h
    obtain ⟨mt, mn⟩ := x
    simp only [respContent] at h
    split at h
    · cases h
    · rename_i ce h1
      split at h
      · cases h
      · rename_i cs h2
        injection h with h
        subst h
        simp only [List.map_cons, entryOf, h1, ih h2]

theorem respContent_ok_iff {orc : Oracle} {promo : Str} (c : List (Str × JsonV)) :
    (∃ content, respContent orc promo c = .ok content) ↔ ∀ x ∈ c, ∃ y, respMedia orc promo x.2 = .ok y := by
  induction c with
  | nil => simp [respContent]
  | cons x rest ih =>
    obtain ⟨mt, mn⟩ := x
    constructor
    · rintro ⟨content, h⟩
      simp only [respContent] at h
      split at h
      · cases h
      · rename_i ce h1
        split at h
        · cases h
        · rename_i cs h2
          intro x hx
          rcases List.mem_cons.mp hx with e | hm
          · subst e; exact ⟨ce, h1⟩
          · exact (ih.mp ⟨cs, h2⟩) x hm
    · intro h
      obtain ⟨ce, h1⟩ := h (mt, mn) (by simp)
      obtain ⟨cs, h2⟩ := ih.mpr (fun x hx => h x (List.mem_cons_of_mem _ hx))
      exact ⟨(mt, ce) :: cs, by simp only [respContent, h1, h2]⟩

theorem respContent_keys {orc : Oracle} {promo : Str} {c : List (Str × JsonV)} {content : List (Str × ContentEntry)}
    (h : respContent orc promo c = .ok content) : content.map (·.1) = c.map (·.1) := by
  rw [respContent_eq_map h, List.map_map]
  rfl

/-- A permuted content mapping is accepted iff the original is, and gives the permuted content. -/
theorem respContent_perm {orc : Oracle} {promo : Str} {c c' : List (Str × JsonV)} (hp : c.Perm c')
    {content : List (Str × ContentEntry)} (h : respContent orc promo c = .ok content) :
    ∃ content', respContent orc promo c' = .ok content' ∧ content.Perm content' := by
  have hall := (respContent_ok_iff c).mp ⟨content, h⟩
  obtain ⟨content', h'⟩ := (respContent_ok_iff c').mpr (fun x hx => hall x (hp.mem_iff.mpr hx))
  refine ⟨content', h', ?_⟩
  rw [respContent_eq_map h, respContent_eq_map h']
  exact hp.map _

/-- what a successful `parse_response` is made of -/
theorem parseResponse_ok {u : UInfo} {orc : Oracle} {opId : Str} {sc : StatusKey} {node : JsonV} {r : IRResp}
    {ev : List Event} (h : parseResponse u orc opId sc node = .ok (r, ev)) :
    ∃ code kvs c content, sc = .strKey code ∧ node = .obj kvs ∧ opId ≠ [] ∧ contentOf kvs = .ok c ∧
      respContent orc (respPromoName opId code) c = .ok content ∧
      r = ⟨code, content, (streamOf u content).1, (streamOf u content).2⟩ ∧ ev = contentEvents content := by
  unfold parseResponse at h
  split at h
  · cases h
  · cases h
  · rename_i code
    split at h
    · rename_i kvs
      split at h
      · cases h
      · rename_i hop
        split at h
        · cases h
        · rename_i c hc
          unfold respOfContent at h
          split at h
          · cases h
          · rename_i content hcont
            injection h with h
            injection h with h1 h2
            refine ⟨code, kvs, c, content, rfl, rfl, ?_, hc, hcont, h1.symm, h2.symm⟩
            intro e
            subst e
            exact hop rfl
    · cases h

theorem parseResponse_eq (u : UInfo) (orc : Oracle) (opId code : Str) (kvs : List (Str × JsonV)) (c : List (Str × JsonV))
    (hop : opId ≠ []) (hc : contentOf kvs = .ok c) :
    parseResponse u orc opId (.strKey code) (.obj kvs) = respOfContent u orc opId code c := by
  unfold parseResponse
  have : opId.isEmpty = false := by cases opId with
    | nil => exact absurd rfl hop
    | cons _ _ => rfl
  simp only [this, hc]
  rfl

/-! ### the stream flag -/

theorem getLast?_isSome_iff {α : Type} (l : List α) : (l.getLast?).isSome = true ↔ l ≠ [] := by
  cases l with
  | nil => simp
  | cons a l => simp [List.getLast?]

/-- the flag as a pure disjunction of two `any`s -/
theorem streamOf_flag (u : UInfo) (content : List (Str × ContentEntry)) :
    (streamOf u content).1 =
      (content.any (fun e => (streamLookup u e.1).isSome) || content.any (fun e => e.2.isBinary)) := by
  unfold streamOf
  split
  · rename_i f hf
    have hne : content.filterMap (fun e => streamLookup u e.1) ≠ [] := by
      intro e; rw [e] at hf; simp at hf
    have : content.any (fun e => (streamLookup u e.1).isSome) = true := by
      rw [List.any_eq_true]
      cases hfm : content.filterMap (fun e => streamLookup u e.1) with
      | nil => exact absurd hfm hne
      | cons a l =>
        have ha : a ∈ content.filterMap (fun e => streamLookup u e.1) := by rw [hfm]; simp
        obtain ⟨e, he, hea⟩ := List.mem_filterMap.mp ha
        exact ⟨e, he, by rw [hea]; rfl⟩
    simp [this]
  · rename_i hf
    have hnil : content.filterMap (fun e => streamLookup u e.1) = [] := by
      cases hfm : content.filterMap (fun e => streamLookup u e.1) with
      | nil => rfl
      | cons a l =>
        rw [hfm] at hf
        have := (getLast?_isSome_iff (a :: l)).mpr (by simp)
        rw [hf] at this
        cases this
    have : content.any (fun e => (streamLookup u e.1).isSome) = false := by
      rw [List.any_eq_false]
      intro e he hs
      rw [Option.isSome_iff_exists] at hs
      obtain ⟨f, hf'⟩ := hs
      have : f ∈ content.filterMap (fun e => streamLookup u e.1) := List.mem_filterMap.mpr ⟨e, he, hf'⟩
      rw [hnil] at this
      cases this
    simp only [this, Bool.false_or]
    split
    · rename_i hb; simp [hb]
    · rename_i hb; simp only [Bool.not_eq_true] at hb; simp [hb]

theorem any_perm {α : Type} {l l' : List α} (hp : l.Perm l') (p : α → Bool) : l.any p = l'.any p := by
  rw [Bool.eq_iff_iff, List.any_eq_true, List.any_eq_true]
  constructor
  · rintro ⟨x, hx, h⟩; exact ⟨x, hp.mem_iff.mp hx, h⟩
  · rintro ⟨x, hx, h⟩; exact ⟨x, hp.mem_iff.mpr hx, h⟩

theorem streamOf_flag_perm (u : UInfo) {content content' : List (Str × ContentEntry)} (hp : content.Perm content') :
    (streamOf u content).1 = (streamOf u content').1 := by
  rw [streamOf_flag, streamOf_flag, any_perm hp, any_perm hp]

/-! ### parameters -/

theorem parseParams_length {orc : Oracle} {tbl : List (Str × JsonV)} {opId : Str} :
    ∀ {ps : List JsonV} {out : List IRParam} {evs : List Event},
      parseParams orc tbl opId ps = .ok (out, evs) → out.length = ps.length := by
  intro ps
  induction ps with
  | nil => intro out evs h; simp only [parseParams] at h; injection h with h; injection h with h _; subst h; rfl
  | cons p ps ih =>
    intro out evs h
    simp only [parseParams] at h
    split at h
    · cases h
    · split at h
      · cases h
      · split at h
        · cases h
        · rename_i ips evs' h3
          injection h with h
          injection h with h _
          subst h
          simp [ih h3]

/-- `node["name"]` of the (resolved) parameter node -/
def paramNameOf (tbl : List (Str × JsonV)) (p : JsonV) : JsonV :=
  match resolveParam tbl p with
  | .ok (.obj kvs) => (aget kvs "name".toList).getD .null
  | _ => .null

theorem parseParam_ok {orc : Oracle} {opId : Str} {node : JsonV} {p : IRParam} {ev : List Event}
    (h : parseParam orc opId node = .ok (p, ev)) :
    ∃ kvs pname sc, node = .obj kvs ∧ aget kvs "name".toList = some pname ∧
      paramSchema orc opId pname ((aget kvs "schema".toList).getD .null) = .ok (sc, ev) ∧
      p = ⟨pname, (aget kvs "in".toList).getD (.str "query".toList),
           pyTruthy ((aget kvs "required".toList).getD (.bool false)), sc⟩ := by
  unfold parseParam at h
  split at h
  · rename_i kvs
    split at h
    · cases h
    · rename_i pname hn
      split at h
      · cases h
      · rename_i sc ev' hs
        injection h with h
        injection h with h1 h2
        subst h2
        exact ⟨kvs, pname, sc, rfl, hn, hs, h1.symm⟩
  · cases h

theorem parseParam_name {orc : Oracle} {opId : Str} {node : JsonV} {p : IRParam} {ev : List Event}
    (h : parseParam orc opId node = .ok (p, ev)) :
    ∃ kvs, node = .obj kvs ∧ aget kvs "name".toList = some p.name := by
  obtain ⟨kvs, pname, sc, h1, h2, _, h4⟩ := parseParam_ok h
  exact ⟨kvs, h1, by rw [h4]; exact h2⟩

theorem parseParams_names {orc : Oracle} {tbl : List (Str × JsonV)} {opId : Str} :
    ∀ {ps : List JsonV} {out : List IRParam} {evs : List Event},
      parseParams orc tbl opId ps = .ok (out, evs) → out.map (·.name) = ps.map (paramNameOf tbl) := by
  intro ps
  induction ps with
  | nil => intro out evs h; simp only [parseParams] at h; injection h with h; injection h with h _; subst h; rfl
  | cons p ps ih =>
    intro out evs h
    simp only [parseParams] at h
    split at h
    · cases h
    · rename_i node h1
      split at h
      · cases h
      · rename_i ip ev h2
        split at h
        · cases h
        · rename_i ips evs' h3
          injection h with h
          injection h with h _
          subst h
          obtain ⟨kvs, hk, hname⟩ := parseParam_name h2
          subst hk
          simp only [List.map_cons, ih h3, paramNameOf, h1, hname, Option.getD_some]

/-- `node.get("in", "query")` of the (resolved) parameter node -/
def paramInOf (tbl : List (Str × JsonV)) (p : JsonV) : JsonV :=
  match resolveParam tbl p with
  | .ok (.obj kvs) => (aget kvs "in".toList).getD (.str "query".toList)
  | _ => .null

theorem parseParams_keys {orc : Oracle} {tbl : List (Str × JsonV)} {opId : Str} :
    ∀ {ps : List JsonV} {out : List IRParam} {evs : List Event},
      parseParams orc tbl opId ps = .ok (out, evs) →
        out.map (fun p => (p.name, p.pin)) = ps.map (fun n => (paramNameOf tbl n, paramInOf tbl n)) := by
  intro ps
  induction ps with
  | nil => intro out evs h; simp only [parseParams] at h; injection h with h; injection h with h _; subst h; rfl
  | cons p ps ih =>
    intro out evs h
    simp only [parseParams] at h
    split at h
    · cases h
    · rename_i node h1
      split at h
      · cases h
      · rename_i ip ev h2
        split at h
        · cases h
        · rename_i ips evs' h3
          injection h with h
          injection h with h _
          subst h
          obtain ⟨kvs, pname, sc, hk, hname, _, hp⟩ := parseParam_ok h2
          subst hk
          subst hp
          simp only [List.map_cons, ih h3, paramNameOf, paramInOf, h1, hname, Option.getD_some]

/-! ### the override of path-level parameters (`mergeParams`) -/

theorem mergeParams_sublist (base own : List IRParam) : (mergeParams base own).Sublist (base ++ own) :=
  List.Sublist.append List.filter_sublist (List.Sublist.refl own)

theorem mergeParams_suffix (base own : List IRParam) : own <:+ mergeParams base own :=
  List.suffix_append _ _

theorem mem_mergeParams {base own : List IRParam} {p : IRParam} :
    p ∈ mergeParams base own ↔ (p ∈ base ∧ ∀ q ∈ own, sameParamKey p q = false) ∨ p ∈ own := by
  simp only [mergeParams, List.mem_append, List.mem_filter, Bool.not_eq_true', List.any_eq_false, Bool.not_eq_true]

/-- Nothing to override: the plain concatenation. -/
theorem mergeParams_of_distinct {base own : List IRParam} (h : ∀ p ∈ base, ∀ q ∈ own, sameParamKey p q = false) :
    mergeParams base own = base ++ own := by
  simp only [mergeParams, List.append_cancel_right_eq, List.filter_eq_self, Bool.not_eq_true', List.any_eq_false,
    Bool.not_eq_true]
  exact h

/-- The merged list has no two entries with the same (name, in) when neither input list has. -/
theorem mergeParams_pairwise {base own : List IRParam}
    (hb : base.Pairwise (fun a b => sameParamKey a b = false)) (ho : own.Pairwise (fun a b => sameParamKey a b = false)) :
    (mergeParams base own).Pairwise (fun a b => sameParamKey a b = false) := by
  refine List.pairwise_append.mpr ⟨hb.sublist List.filter_sublist, ho, ?_⟩
  intro a ha b hb'
  simp only [List.mem_filter, Bool.not_eq_true', List.any_eq_false, Bool.not_eq_true] at ha
  exact ha.2 b hb'

/-! ### what the parameter promotion names are -/

theorem promoFor_ok {cond : Bool} {opId suffix : Str} {pname : JsonV} {x : Option Str}
    (h : promoFor cond opId suffix pname = .ok x) :
    (cond = true ∧ ∃ n, pname = .str n ∧ x = some (paramPromoName opId n ++ suffix)) ∨ (cond = false ∧ x = none) := by
  unfold promoFor at h
  cases cond with
  | false => simp only [Bool.false_eq_true, if_false] at h; injection h with h; exact Or.inr ⟨rfl, h.symm⟩
  | true =>
    simp only [if_true] at h
    split at h
    · rename_i n; injection h with h; exact Or.inl ⟨rfl, n, rfl, h.symm⟩
    · cases h

theorem paramSchema_parsed {orc : Oracle} {opId : Str} {pname sch : JsonV} {req : ParseReq} {ev : List Event}
    (h : paramSchema orc opId pname sch = .ok (.parsed req, ev)) :
    req.node = sch ∧ ev = [.parse req] ∧ (orc req.name req.node).isSome = true ∧
      ((objLike sch = true ∧ ∃ n, pname = .str n ∧ req.name = some (paramPromoName opId n)) ∨
       (objLike sch = false ∧ req.name = none)) := by
  unfold paramSchema at h
  split at h
  · cases h
  · rename_i inlineName hin
    split at h
    · split at h
      · cases h
      · split at h
        · cases h
        · injection h with h; injection h with h _; cases h
    · split at h
      · split at h
        · cases h
        · rename_i o ho
          injection h with h
          injection h with h1 h2
          injection h1 with h1
          subst h1
          refine ⟨rfl, h2.symm, by simp [ho], ?_⟩
          rcases promoFor_ok hin with ⟨hc, n, hn, hx⟩ | ⟨hc, hx⟩
          · exact Or.inl ⟨hc, n, hn, by simpa using hx⟩
          · exact Or.inr ⟨hc, hx⟩
      · injection h with h; injection h with h _; cases h

theorem paramSchema_enumArray {orc : Oracle} {opId : Str} {pname sch : JsonV} {k it : Option Str} {ev : List Event}
    (h : paramSchema orc opId pname sch = .ok (.enumArray k it, ev)) :
    (enumArrayItems sch).isSome = true ∧ it = k.map sanClass ∧
      ((pyTruthy pname = true ∧ ∃ n, pname = .str n ∧ k = some (paramEnumName opId n) ∧
          ev = [.regEnum (paramEnumName opId n)]) ∨
       (pyTruthy pname = false ∧ k = none ∧ ev = [])) := by
  unfold paramSchema at h
  split at h
  · cases h
  · split at h
    · rename_i ev' hev
      split at h
      · cases h
      · rename_i enumName hen
        split at h
        · cases h
        · injection h with h
          injection h with h1 h2
          injection h1 with h1 h1'
          subst h1
          refine ⟨by simp [hev], h1'.symm, ?_⟩
          rcases promoFor_ok hen with ⟨hc, n, hn, hx⟩ | ⟨hc, hx⟩
          · subst hx
            exact Or.inl ⟨hc, n, hn, rfl, h2.symm⟩
          · subst hx
            exact Or.inr ⟨hc, rfl, h2.symm⟩
    · split at h
      · split at h
        · cases h
        · injection h with h; injection h with h _; cases h
      · injection h with h; injection h with h _; cases h

/-- every event of a parameter parse is the one request / registration of that parameter -/
theorem paramSchema_events {orc : Oracle} {opId : Str} {pname sch : JsonV} {sc : ParamSchema} {ev : List Event}
    (h : paramSchema orc opId pname sch = .ok (sc, ev)) :
    ev = match sc with
         | .parsed r => [.parse r]
         | .enumArray (some k) _ => [.regEnum k]
         | .enumArray none _ => []
         | .blank => [] := by
  cases sc with
  | parsed r => exact (paramSchema_parsed h).2.1
  | enumArray k it =>
    rcases (paramSchema_enumArray h).2.2 with ⟨_, n, _, hk, hev⟩ | ⟨_, hk, hev⟩
    · subst hk; exact hev
    · subst hk; exact hev
  | blank =>
    unfold paramSchema at h
    split at h
    · cases h
    · split at h
      · split at h
        · cases h
        · split at h
          · cases h
          · injection h with h; injection h with h _; cases h
      · split at h
        · split at h
          · cases h
          · injection h with h; injection h with h _; cases h
        · injection h with h; injection h with _ h; exact h.symm

/-! ### what the response promotion names are -/

theorem mediaReq_some {promo : Str} {mn : JsonV} {req : ParseReq} (h : mediaReq promo mn = .ok (some req)) :
    (mediaIsSchemaRef mn = .ok true ∧ req = ⟨none, mn⟩) ∨
    (mediaIsSchemaRef mn = .ok false ∧ ∃ kvs, mn = .obj kvs ∧ aget kvs "schema".toList = some req.node ∧
      req.name = if objLike req.node then some promo else none) := by
  unfold mediaReq at h
  split at h
  · cases h
  · rename_i hr
    injection h with h; injection h with h
    exact Or.inl ⟨hr, h.symm⟩
  · rename_i hr
    split at h
    · rename_i kvs
      split at h
      · rename_i msn hm
        injection h with h; injection h with h
        subst h
        exact Or.inr ⟨hr, kvs, rfl, hm, rfl⟩
      · cases h
    · cases h

theorem respMedia_parsed {orc : Oracle} {promo : Str} {mn : JsonV} {req : ParseReq} {out : ParseOut}
    (h : respMedia orc promo mn = .ok (.parsed req out)) :
    mediaReq promo mn = .ok (some req) ∧ orc req.name req.node = some out := by
  unfold respMedia at h
  split at h
  · cases h
  · cases h
  · rename_i r hr
    split at h
    · cases h
    · rename_i o ho
      injection h with h
      injection h with h1 h2
      subst h1; subst h2
      exact ⟨hr, ho⟩

theorem respMedia_placeholder {orc : Oracle} {promo : Str} {mn : JsonV}
    (h : respMedia orc promo mn = .ok .placeholder) : mediaReq promo mn = .ok none := by
  unfold respMedia at h
  split at h
  · cases h
  · assumption
  · split at h
    · cases h
    · cases h

theorem respContent_mem {orc : Oracle} {promo : Str} {c : List (Str × JsonV)} {content : List (Str × ContentEntry)}
    (h : respContent orc promo c = .ok content) {mt : Str} {e : ContentEntry} (hm : (mt, e) ∈ content) :
    ∃ mn, (mt, mn) ∈ c ∧ respMedia orc promo mn = .ok e := by
  have hall := (respContent_ok_iff c).mp ⟨content, h⟩
  rw [respContent_eq_map h] at hm
  obtain ⟨x, hx, he⟩ := List.mem_map.mp hm
  obtain ⟨y, hy⟩ := hall x hx
  injection he with h1 h2
  refine ⟨x.2, by rw [← h1]; exact hx, ?_⟩
  rw [← h2, entryOf, hy]

/-! ### content keys of every response of an operation -/

/-- the relation between a declared response and its `IRResponse`, for `response_content_keys_preserved` -/
def ContentKeysOf (tbl : List (Str × JsonV)) (x : StatusKey × JsonV) (r : IRResp) : Prop :=
  ∃ kvs c, resolveResponse tbl x.2 = .obj kvs ∧ contentOf kvs = .ok c ∧ r.content.map (·.1) = c.map (·.1)

theorem parseResponses_content_keys {u : UInfo} {orc : Oracle} {tbl : List (Str × JsonV)} {opId : Str} :
    ∀ {rs : List (StatusKey × JsonV)} {out : List IRResp} {evs : List Event},
      parseResponses u orc tbl opId rs = .ok (out, evs) →
      out.length = rs.length ∧ ∀ p ∈ rs.zip out, ContentKeysOf tbl p.1 p.2 := by
  intro rs
  induction rs with
  | nil =>
    intro out evs h
    simp only [parseResponses] at h
    injection h with h; injection h with h _; subst h
    exact ⟨rfl, by simp⟩
  | cons x rest ih =>
    intro out evs h
    obtain ⟨sc, rn⟩ := x
    simp only [parseResponses] at h
    split at h
    · cases h
    · rename_i r ev h1
      split at h
      · cases h
      · rename_i rs' evs' h2
        injection h with h; injection h with h _; subst h
        obtain ⟨code, kvs, c, content, _, hnode, _, hc, hcont, hr, _⟩ := parseResponse_ok h1
        obtain ⟨hl, hall⟩ := ih h2
        refine ⟨by simp [hl], ?_⟩
        intro p hp
        simp only [List.zip_cons_cons, List.mem_cons] at hp
        rcases hp with e | hp
        · subst e
          refine ⟨kvs, c, hnode, hc, ?_⟩
          rw [hr]
          exact respContent_keys hcont
        · exact hall p hp

/-! ### a `$ref` to `components.responses` that cannot be followed -/

theorem refOr_none {tbl : List (Str × JsonV)} {n : Str} (d : JsonV) (h : aget tbl n = none) : refOr tbl n d = d := by
  simp [refOr, h]

theorem refOr_falsy {tbl : List (Str × JsonV)} {n : Str} {v : JsonV} (d : JsonV) (h : aget tbl n = some v)
    (hf : pyTruthy v = false) : refOr tbl n d = d := by
  simp [refOr, h, hf]

theorem refOr_truthy {tbl : List (Str × JsonV)} {n : Str} {v : JsonV} (d : JsonV) (h : aget tbl n = some v)
    (hf : pyTruthy v = true) : refOr tbl n d = v := by
  simp [refOr, h, hf]

theorem resolveResponse_ref {tbl : List (Str × JsonV)} {kvs : List (Str × JsonV)} {r : Str}
    (h1 : aget kvs "$ref".toList = some (.str r)) (h2 : startsWith r respPrefix = true) :
    resolveResponse tbl (.obj kvs) = refOr tbl (lastSeg r) (.obj kvs) := by
  simp only [resolveResponse, h1, h2, if_true]

/-! ### promotion names: injectivity -/

theorem respPromoName_eq_iff (a c a' c' : Str) : respPromoName a c = respPromoName a' c' ↔ a ++ c = a' ++ c' := by
  unfold respPromoName
  constructor
  · intro h; exact List.append_cancel_right h
  · intro h; rw [h]

theorem respPromoName_inj_same_len {a c a' c' : Str} (hl : c.length = c'.length)
    (h : respPromoName a c = respPromoName a' c') : a = a' ∧ c = c' := by
  have h := (respPromoName_eq_iff a c a' c').mp h
  have hla : a.length = a'.length := by
    have := congrArg List.length h
    simp only [List.length_append] at this
    omega
  exact List.append_inj h hla

/-- a key of the `responses` mapping as OpenAPI allows it: `default`, or three characters the first of which is a digit
    (`200`, `2XX`) -/
def isStatusKey (c : Str) : Bool :=
  c == "default".toList ||
    match c with
    | [d, _, _] => isDigitA d
    | _ => false

theorem append_default_ne (a a' : Str) (d x y : Char) (hd : isDigitA d = true)
    (h : a ++ "default".toList = a' ++ [d, x, y]) : False := by
  have hr := congrArg List.reverse h
  simp only [List.reverse_append] at hr
  have h3 := congrArg (List.take 3) hr
  have e1 : List.take 3 ("default".toList.reverse ++ a.reverse) = ['t', 'l', 'u'] := by
    simp
  have e2 : List.take 3 ([d, x, y].reverse ++ a'.reverse) = [y, x, d] := by
    simp
  rw [e1, e2] at h3
  injection h3 with _ h3
  injection h3 with _ h3
  injection h3 with h3 _
  subst h3
  revert hd
  decide

theorem respPromoName_inj_status {a c a' c' : Str} (hc : isStatusKey c = true) (hc' : isStatusKey c' = true)
    (h : respPromoName a c = respPromoName a' c') : a = a' ∧ c = c' := by
  have happ := (respPromoName_eq_iff a c a' c').mp h
  unfold isStatusKey at hc hc'
  simp only [Bool.or_eq_true, beq_iff_eq] at hc hc'
  rcases hc with hc | hc <;> rcases hc' with hc' | hc'
  · exact respPromoName_inj_same_len (by rw [hc, hc']) h
  · exfalso
    split at hc'
    · rename_i d x y
      rw [hc] at happ
      exact append_default_ne a a' d x y hc' happ
    · cases hc'
  · exfalso
    split at hc
    · rename_i d x y
      rw [hc'] at happ
      exact append_default_ne a' a d x y hc happ.symm
    · cases hc
  · split at hc
    · split at hc'
      · exact respPromoName_inj_same_len rfl h
      · cases hc'
    · cases hc

/-! ### `stream_format` under re-ordering -/

/-- `stream_format` is order independent as soon as all stream media types of the content agree on it. -/
theorem streamOf_format_perm (u : UInfo) {content content' : List (Str × ContentEntry)} (hp : content.Perm content')
    (hu : ∀ f ∈ content.filterMap (fun e => streamLookup u e.1),
          ∀ g ∈ content.filterMap (fun e => streamLookup u e.1), f = g) :
    streamOf u content = streamOf u content' := by
  have hpf := hp.filterMap (fun e => streamLookup u e.1)
  unfold streamOf
  cases h : (content.filterMap (fun e => streamLookup u e.1)).getLast? with
  | none =>
    have hnil := List.getLast?_eq_none_iff.mp h
    have hnil' : content'.filterMap (fun e => streamLookup u e.1) = [] := by
      rw [hnil] at hpf; exact hpf.symm.eq_nil
    simp only [hnil', List.getLast?_nil, any_perm hp]
  | some f =>
    have hf := List.mem_of_getLast? h
    cases h' : (content'.filterMap (fun e => streamLookup u e.1)).getLast? with
    | none =>
      have hnil' := List.getLast?_eq_none_iff.mp h'
      rw [hnil'] at hpf
      rw [hpf.eq_nil] at hf
      cases hf
    | some g =>
      have hg := hpf.mem_iff.mpr (List.mem_of_getLast? h')
      rw [hu f hf g hg]

/-! ### every parsed parameter comes from one `parse_parameter` call with this operation's id -/

theorem parseParams_mem {orc : Oracle} {tbl : List (Str × JsonV)} {opId : Str} :
    ∀ {ps : List JsonV} {out : List IRParam} {evs : List Event},
      parseParams orc tbl opId ps = .ok (out, evs) → ∀ p ∈ out, ∃ node ev, parseParam orc opId node = .ok (p, ev) := by
  intro ps
  induction ps with
  | nil =>
    intro out evs h p hp
    simp only [parseParams] at h
    injection h with h; injection h with h _; subst h
    cases hp
  | cons x ps ih =>
    intro out evs h p hp
    simp only [parseParams] at h
    split at h
    · cases h
    · rename_i node h1
      split at h
      · cases h
      · rename_i ip ev h2
        split at h
        · cases h
        · rename_i ips evs' h3
          injection h with h; injection h with h _; subst h
          rcases List.mem_cons.mp hp with e | hm
          · subst e; exact ⟨node, ev, h2⟩
          · exact ih h3 p hm

theorem parseParams_append {orc : Oracle} {tbl : List (Str × JsonV)} {opId : Str} {xs ys : List JsonV}
    {a b : List IRParam} {ea eb : List Event}
    (h1 : parseParams orc tbl opId xs = .ok (a, ea)) (h2 : parseParams orc tbl opId ys = .ok (b, eb)) :
    parseParams orc tbl opId (xs ++ ys) = .ok (a ++ b, ea ++ eb) := by
  induction xs generalizing a ea with
  | nil =>
    simp only [parseParams] at h1
    injection h1 with h1; injection h1 with h1 h1'; subst h1; subst h1'
    simpa using h2
  | cons x xs ih =>
    simp only [parseParams, List.cons_append] at h1 ⊢
    split at h1
    · cases h1
    · rename_i node hn
      split at h1
      · cases h1
      · rename_i ip ev hp
        split at h1
        · cases h1
        · rename_i ips evs' h3
          injection h1 with h1; injection h1 with h1 h1'; subst h1; subst h1'
          simp only [ih h3, List.cons_append, List.append_assoc]

/-! ### the two promotion-name families never meet -/

theorem respPromo_ne_rbPromo (a c a' : Str) : respPromoName a c ≠ rbPromoName a' := by
  intro h
  have := congrArg List.getLast? h
  simp [respPromoName, rbPromoName, List.getLast?_append] at this

theorem respPromoName_prefix {a c a' c' : Str} (h : respPromoName a c = respPromoName a' c') :
    a <+: a' ∨ a' <+: a := by
  have h := (respPromoName_eq_iff a c a' c').mp h
  rcases List.append_eq_append_iff.mp h with ⟨m, h1, _⟩ | ⟨m, h1, _⟩
  · exact Or.inl ⟨m, h1.symm⟩
  · exact Or.inr ⟨m, h1.symm⟩

theorem respPromoName_inj_same_op {a c c' : Str} (h : respPromoName a c = respPromoName a c') : c = c' :=
  List.append_cancel_left ((respPromoName_eq_iff a c a c').mp h)

/-! ### link with the control skeleton `Pog.Ops`: a kept operation passes `Ops.respError` -/

theorem parseResponses_respError {u : UInfo} {orc : Oracle} {tbl : List (Str × JsonV)} {opId : Str} :
    ∀ {rs : List (StatusKey × JsonV)} {out : List IRResp} {evs : List Event},
      parseResponses u orc tbl opId rs = .ok (out, evs) → Ops.respError opId (rs.map (·.1)) = none := by
  intro rs
  induction rs with
  | nil => intro out evs _; rfl
  | cons x rest ih =>
    intro out evs h
    obtain ⟨sc, rn⟩ := x
    simp only [parseResponses] at h
    split at h
    · cases h
    · rename_i r ev h1
      split at h
      · cases h
      · rename_i rs' evs' h2
        obtain ⟨code, _, _, _, hsc, _, hop, _⟩ := parseResponse_ok h1
        subst hsc
        have : opId.isEmpty = false := by
          cases opId with
          | nil => exact absurd rfl hop
          | cons _ _ => rfl
        simp only [List.map_cons, Ops.respError, this, Bool.false_eq_true, if_false]
        exact ih h2

/-! ### table-level facts about STREAM_FORMATS (re-checked whenever the table is regenerated) -/

theorem stream_table_values_truthy : Pog.Gen.streamFormats.all (fun p => !p.2.isEmpty) = true := by decide

theorem streamLookup_isSome_iff (u : UInfo) (mt : Str) :
    (streamLookup u mt).isSome = true ↔ u.lowerS mt ∈ Pog.Gen.streamFormats.map (·.1) := by
  rw [← aget_isSome_iff]
  unfold streamLookup
  cases h : aget Pog.Gen.streamFormats (u.lowerS mt) with
  | none => simp
  | some f =>
    have hm := aget_mem _ _ _ h
    have := List.all_eq_true.mp stream_table_values_truthy _ hm
    simp only [Bool.not_eq_true'] at this
    simp [this]

end Pog.Loader
