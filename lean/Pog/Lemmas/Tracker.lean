import Pog.Model.Tracker
/-
  Lemmas about M-tracker: effect of single events on depth / stack / states, the shape of the
  event words the parser emits, and the bracket theorem.
-/
namespace Pog.Trk
open Pog

/-! ### dict lemmas -/

theorem dGet_dSet_self {β : Type} (k : Str) (v : β) (d : List (Str × β)) :
    dGet k (dSet k v d) = some v := by
  induction d with
  | nil => simp [dSet, dGet]
  | cons p rest ih =>
    obtain ⟨k', v'⟩ := p
    by_cases h : k' = k
    · simp [dSet, dGet, h]
    · simp [dSet, dGet, h, ih]

theorem dGet_dSet_ne {β : Type} (k m : Str) (v : β) (d : List (Str × β)) (h : m ≠ k) :
    dGet m (dSet k v d) = dGet m d := by
  induction d with
  | nil => simp [dSet, dGet, Ne.symm h]
  | cons p rest ih =>
    obtain ⟨k', v'⟩ := p
    by_cases h1 : k' = k
    · subst h1
      simp [dSet, dGet, Ne.symm h]
    · by_cases h2 : k' = m
      · subst h2
        simp [dSet, dGet, h1]
      · simp [dSet, dGet, h1, h2, ih]

/-! ### single events -/

/-- `check` never touches depth or stack and only writes the entry of its own name. -/
theorem check_depth (s : TrSt) (n : Str) : (check s n).1.depth = s.depth := by
  unfold check
  split <;> try rfl
  split
  · rfl
  · split
    · simp only []
      split <;> rfl
    · rfl

theorem check_stack (s : TrSt) (n : Str) : (check s n).1.stack = s.stack := by
  unfold check
  split <;> try rfl
  split
  · rfl
  · split
    · simp only []
      split <;> rfl
    · rfl

theorem check_maxDepth (s : TrSt) (n : Str) : (check s n).1.maxDepth = s.maxDepth := by
  unfold check
  split <;> try rfl
  split
  · rfl
  · split
    · simp only []
      split <;> rfl
    · rfl

theorem check_states_ne (s : TrSt) (n m : Str) (h : m ≠ n) :
    dGet m (check s n).1.states = dGet m s.states := by
  unfold check
  split <;> try rfl
  split
  · exact dGet_dSet_ne _ _ _ _ h
  · split
    · simp only []
      split
      · exact dGet_dSet_ne _ _ _ _ h
      · rfl
    · exact dGet_dSet_ne _ _ _ _ h

/-- CONTINUE is only answered for a name that is not on the stack. -/
theorem check_continue_not_mem (s : TrSt) (n : Str)
    (h : (check s n).2.action = .continueParsing) : n ∉ s.stack := by
  unfold check at h
  split at h
  · simp at h
  · simp at h
  · simp at h
  · simp at h
  · split at h
    · simp at h
    · split at h
      · simp only [] at h
        split at h <;> simp at h
      · rename_i hc
        simpa using hc

theorem enter_depth (s : TrSt) (n : Option Str) (a : Bool) :
    (enter s n a).1.depth = s.depth + 1 := by
  unfold enter
  cases n with
  | none => rfl
  | some m =>
    simp only []
    split <;> simp [check_depth]

theorem enter_maxDepth (s : TrSt) (n : Option Str) (a : Bool) :
    (enter s n a).1.maxDepth = s.maxDepth := by
  unfold enter
  cases n with
  | none => rfl
  | some m =>
    simp only []
    split <;> simp [check_maxDepth]

/-- Either the stack is unchanged, or a name that was NOT on it was appended. -/
theorem enter_stack (s : TrSt) (n : Option Str) (a : Bool) :
    (enter s n a).1.stack = s.stack ∨
    ∃ m, n = some m ∧ m ≠ [] ∧ m ∉ s.stack ∧ (enter s n a).2.action = .continueParsing ∧
      (enter s n a).1.stack = s.stack ++ [m] := by
  unfold enter
  cases n with
  | none => exact Or.inl rfl
  | some m =>
    simp only []
    split
    · rename_i hc
      refine Or.inr ⟨m, rfl, hc.2, ?_, hc.1, ?_⟩
      · have := check_continue_not_mem _ m hc.1
        simpa using this
      · simp [check_stack]
    · exact Or.inl (by simp [check_stack])

theorem enter_states_none (s : TrSt) (a : Bool) : (enter s none a).1.states = s.states := rfl

theorem enter_states_ne (s : TrSt) (n m : Str) (a : Bool) (h : m ≠ n) :
    dGet m (enter s (some n) a).1.states = dGet m s.states := by
  unfold enter
  simp only []
  split <;> simp [check_states_ne _ _ _ h]

theorem exit_depth (s : TrSt) (n : Option Str) : (exit s n).depth = s.depth - 1 := by
  unfold exit
  cases n with
  | none => rfl
  | some m =>
    simp only []
    split
    · rfl
    · split <;> rfl

theorem exit_maxDepth (s : TrSt) (n : Option Str) : (exit s n).maxDepth = s.maxDepth := by
  unfold exit
  cases n with
  | none => rfl
  | some m =>
    simp only []
    split
    · rfl
    · split <;> rfl

theorem exit_stack_none (s : TrSt) : (exit s none).stack = s.stack := rfl

theorem exit_stack_some (s : TrSt) (m : Str) :
    (exit s (some m)).stack = if m = [] then s.stack else s.stack.erase m := by
  unfold exit
  simp only []
  split
  · rfl
  · split <;> rfl

theorem exit_stack_sublist (s : TrSt) (n : Option Str) : (exit s n).stack.Sublist s.stack := by
  cases n with
  | none => exact List.Sublist.refl _
  | some m =>
    rw [exit_stack_some]
    split
    · exact List.Sublist.refl _
    · exact List.erase_sublist

theorem exit_states_none (s : TrSt) : (exit s none).states = s.states := rfl

theorem exit_states_ne (s : TrSt) (n m : Str) (h : m ≠ n) :
    dGet m (exit s (some n)).states = dGet m s.states := by
  unfold exit
  simp only []
  split
  · rfl
  · split
    · exact dGet_dSet_ne _ _ _ _ h
    · rfl

/-- After `exit n` (n truthy) the name is not IN_PROGRESS. -/
theorem exit_not_inProgress (s : TrSt) (n : Str) (hn : n ≠ []) :
    dGet n (exit s (some n)).states ≠ some .inProgress := by
  unfold exit
  simp only [hn, if_false]
  split
  · rw [dGet_dSet_self]; simp
  · rename_i h; exact h

theorem reset_states_ne (s : TrSt) (n m : Str) (h : m ≠ n) :
    dGet m (reset s n).states = dGet m s.states := dGet_dSet_ne _ _ _ _ h

theorem reset_states_self (s : TrSt) (n : Str) : dGet n (reset s n).states = some .notStarted :=
  dGet_dSet_self _ _ _

/-! ### words -/

theorem runEvs_append (s : TrSt) (u v : List Ev) : runEvs s (u ++ v) = runEvs (runEvs s u) v := by
  simp [runEvs, List.foldl_append]

theorem runEvs_cons (s : TrSt) (e : Ev) (w : List Ev) : runEvs s (e :: w) = runEvs (apply s e) w :=
  rfl

theorem runEvs_nil (s : TrSt) : runEvs s [] = s := rfl

/-- the `reset` the parser performs after an unsuccessful RETURN_EXISTING (`if schema_name:`) -/
def resetEvs : Option Str → List Ev
  | some m => if m = [] then [] else [.reset m]
  | none => []

/-- Event words as `_parse_schema` emits them.
    `cont`: CONTINUE_PARSING — body, then the `finally` exit.
    `stop`: any other action answered by an immediate balancing exit and a return.
    `fall`: RETURN_EXISTING whose schema is in neither registry: balancing exit, state reset to
            NOT_STARTED, *fall through* into the body, and the `finally` exit AGAIN. -/
inductive Shaped : List Ev → Prop
  | nil : Shaped []
  | cont (n : Option Str) (a : Bool) (w w2 : List Ev) : Shaped w → Shaped w2 →
      Shaped (.enter n a .continueParsing :: (w ++ .exit n :: w2))
  | stop (n : Option Str) (a : Bool) (act : CycleAction) (w2 : List Ev) :
      act ≠ .continueParsing → Shaped w2 → Shaped (.enter n a act :: .exit n :: w2)
  | fall (n : Option Str) (a : Bool) (w w2 : List Ev) : Shaped w → Shaped w2 →
      Shaped (.enter n a .returnExisting :: .exit n :: (resetEvs n ++ (w ++ .exit n :: w2)))

/-- The Dyck language proper: every enter has exactly one exit. -/
inductive WellBracketed : List Ev → Prop
  | nil : WellBracketed []
  | cont (n : Option Str) (a : Bool) (w w2 : List Ev) : WellBracketed w → WellBracketed w2 →
      WellBracketed (.enter n a .continueParsing :: (w ++ .exit n :: w2))
  | stop (n : Option Str) (a : Bool) (act : CycleAction) (w2 : List Ev) :
      act ≠ .continueParsing → WellBracketed w2 → WellBracketed (.enter n a act :: .exit n :: w2)

theorem WellBracketed.shaped {w : List Ev} (h : WellBracketed w) : Shaped w := by
  induction h with
  | nil => exact .nil
  | cont n a w w2 _ _ ih1 ih2 => exact .cont n a w w2 ih1 ih2
  | stop n a act w2 hact _ ih => exact .stop n a act w2 hact ih

theorem Shaped.append {u v : List Ev} (hu : Shaped u) (hv : Shaped v) : Shaped (u ++ v) := by
  induction hu with
  | nil => simpa using hv
  | cont n a w w2 h1 _ _ ih2 =>
    have := Shaped.cont n a w (w2 ++ v) h1 ih2
    simpa [List.append_assoc] using this
  | stop n a act w2 hact _ ih =>
    have := Shaped.stop n a act (w2 ++ v) hact ih
    simpa using this
  | fall n a w w2 h1 _ _ ih2 =>
    have := Shaped.fall n a w (w2 ++ v) h1 ih2
    simpa [List.append_assoc] using this

/-- names of the `enter` events -/
def entered : List Ev → List Str
  | [] => []
  | .enter (some n) _ _ :: w => n :: entered w
  | _ :: w => entered w

theorem entered_append (u v : List Ev) : entered (u ++ v) = entered u ++ entered v := by
  induction u with
  | nil => rfl
  | cons e u ih =>
    cases e with
    | enter n a act => cases n <;> simp [entered, ih]
    | exit n => simp [entered, ih]
    | reset n => simp [entered, ih]

theorem entered_resetEvs (n : Option Str) : entered (resetEvs n) = [] := by
  cases n with
  | none => rfl
  | some m => simp only [resetEvs]; split <;> rfl

theorem runEvs_resetEvs_depth (s : TrSt) (n : Option Str) :
    (runEvs s (resetEvs n)).depth = s.depth := by
  cases n with
  | none => rfl
  | some m => simp only [resetEvs]; split <;> rfl

theorem runEvs_resetEvs_stack (s : TrSt) (n : Option Str) :
    (runEvs s (resetEvs n)).stack = s.stack := by
  cases n with
  | none => rfl
  | some m => simp only [resetEvs]; split <;> rfl

theorem runEvs_resetEvs_maxDepth (s : TrSt) (n : Option Str) :
    (runEvs s (resetEvs n)).maxDepth = s.maxDepth := by
  cases n with
  | none => rfl
  | some m => simp only [resetEvs]; split <;> rfl

theorem runEvs_resetEvs_states_ne (s : TrSt) (n : Option Str) (m : Str) (h : n ≠ some m) :
    dGet m (runEvs s (resetEvs n)).states = dGet m s.states := by
  cases n with
  | none => rfl
  | some k =>
    simp only [resetEvs]
    split
    · rfl
    · exact reset_states_ne _ _ _ (fun e => h (by rw [e]))

/-! ### depth -/

theorem shaped_depth_le {w : List Ev} (hw : Shaped w) : ∀ s : TrSt, (runEvs s w).depth ≤ s.depth := by
  induction hw with
  | nil => intro s; exact Nat.le_refl _
  | cont n a w w2 _ _ ih1 ih2 =>
    intro s
    rw [runEvs_cons, runEvs_append, runEvs_cons]
    refine Nat.le_trans (ih2 _) ?_
    show (exit _ n).depth ≤ _
    rw [exit_depth]
    have h1 := ih1 (apply s (.enter n a .continueParsing))
    have h2 : (apply s (.enter n a .continueParsing)).depth = s.depth + 1 := enter_depth s n a
    omega
  | stop n a act w2 _ _ ih =>
    intro s
    rw [runEvs_cons, runEvs_cons]
    refine Nat.le_trans (ih _) ?_
    show (exit (enter s n a).1 n).depth ≤ _
    rw [exit_depth, enter_depth]
    omega
  | fall n a w w2 _ _ ih1 ih2 =>
    intro s
    rw [runEvs_cons, runEvs_cons, runEvs_append, runEvs_append, runEvs_cons]
    refine Nat.le_trans (ih2 _) ?_
    show (exit _ n).depth ≤ _
    rw [exit_depth]
    have h1 := ih1 (runEvs (apply (apply s (.enter n a .returnExisting)) (.exit n)) (resetEvs n))
    rw [runEvs_resetEvs_depth] at h1
    have h2 : (apply (apply s (.enter n a .returnExisting)) (.exit n)).depth = s.depth := by
      show (exit (enter s n a).1 n).depth = _
      rw [exit_depth, enter_depth]; omega
    omega

theorem wellBracketed_depth_eq {w : List Ev} (hw : WellBracketed w) :
    ∀ s : TrSt, (runEvs s w).depth = s.depth := by
  induction hw with
  | nil => intro s; rfl
  | cont n a w w2 _ _ ih1 ih2 =>
    intro s
    rw [runEvs_cons, runEvs_append, runEvs_cons, ih2]
    show (exit _ n).depth = _
    rw [exit_depth, ih1]
    show (enter s n a).1.depth - 1 = _
    rw [enter_depth]; omega
  | stop n a act w2 _ _ ih =>
    intro s
    rw [runEvs_cons, runEvs_cons, ih]
    show (exit (enter s n a).1 n).depth = _
    rw [exit_depth, enter_depth]; omega

theorem runEvs_maxDepth (w : List Ev) : ∀ s : TrSt, (runEvs s w).maxDepth = s.maxDepth := by
  induction w with
  | nil => intro s; rfl
  | cons e w ih =>
    intro s
    rw [runEvs_cons, ih]
    cases e with
    | enter n a act => exact enter_maxDepth s n a
    | exit n => exact exit_maxDepth s n
    | reset n => rfl

/-! ### stack -/

theorem apply_stack_nodup (s : TrSt) (e : Ev) (h : s.stack.Nodup) : (apply s e).stack.Nodup := by
  cases e with
  | enter n a act =>
    rcases enter_stack s n a with h1 | ⟨m, _, _, hm, _, h1⟩
    · show (enter s n a).1.stack.Nodup
      rw [h1]; exact h
    · show (enter s n a).1.stack.Nodup
      rw [h1]
      exact List.nodup_append.mpr ⟨h, (by simp), by
        intro x hx y hy
        simp at hy; subst hy
        intro e; subst e; exact hm hx⟩
  | exit n => exact List.Sublist.nodup (exit_stack_sublist s n) h
  | reset n => exact h

/-- `stack_nodup`: no event sequence whatsoever (shaped or not) creates a duplicate. -/
theorem runEvs_stack_nodup (w : List Ev) : ∀ s : TrSt, s.stack.Nodup → (runEvs s w).stack.Nodup := by
  induction w with
  | nil => intro s h; exact h
  | cons e w ih => intro s h; exact ih _ (apply_stack_nodup s e h)

private theorem erase_append_singleton_of_not_mem (l : List Str) (m : Str) (h : m ∉ l) :
    (l ++ [m]).erase m = l := by
  rw [List.erase_append_right _ h]
  simp

/-- enter n · w · exit n never grows the stack, whatever the inner word does to it. -/
private theorem bracket_sublist (s s1 s2 : TrSt) (n : Option Str) (a : Bool)
    (h1 : s1 = (enter s n a).1) (h2 : s2.stack.Sublist s1.stack) :
    (exit s2 n).stack.Sublist s.stack := by
  rcases enter_stack s n a with he | ⟨m, hn, hne, hm, _, he⟩
  · exact List.Sublist.trans (exit_stack_sublist s2 n) (by rw [h1, he] at h2; exact h2)
  · subst hn
    rw [exit_stack_some, if_neg hne]
    rw [h1, he] at h2
    have := List.Sublist.erase m h2
    rwa [erase_append_singleton_of_not_mem _ _ hm] at this

theorem shaped_stack_sublist {w : List Ev} (hw : Shaped w) :
    ∀ s : TrSt, (runEvs s w).stack.Sublist s.stack := by
  induction hw with
  | nil => intro s; exact List.Sublist.refl _
  | cont n a w w2 _ _ ih1 ih2 =>
    intro s
    rw [runEvs_cons, runEvs_append, runEvs_cons]
    refine List.Sublist.trans (ih2 _) ?_
    exact bracket_sublist s _ _ n a rfl (ih1 _)
  | stop n a act w2 _ _ ih =>
    intro s
    rw [runEvs_cons, runEvs_cons]
    refine List.Sublist.trans (ih _) ?_
    exact bracket_sublist s _ _ n a rfl (List.Sublist.refl _)
  | fall n a w w2 _ _ ih1 ih2 =>
    intro s
    rw [runEvs_cons, runEvs_cons, runEvs_append, runEvs_append, runEvs_cons]
    refine List.Sublist.trans (ih2 _) ?_
    refine List.Sublist.trans (exit_stack_sublist _ n) ?_
    refine List.Sublist.trans (ih1 _) ?_
    rw [runEvs_resetEvs_stack]
    exact bracket_sublist s _ _ n a rfl (List.Sublist.refl _)

/-! ### states -/

theorem apply_states_not_entered (s : TrSt) (e : Ev) (m : Str)
    (h : ∀ k, (e = .exit (some k) ∨ e = .reset k ∨ ∃ a act, e = .enter (some k) a act) → k ≠ m) :
    dGet m (apply s e).states = dGet m s.states := by
  cases e with
  | enter n a act =>
    cases n with
    | none => rfl
    | some k =>
      exact enter_states_ne s k m a (Ne.symm (h k (Or.inr (Or.inr ⟨a, act, rfl⟩))))
  | exit n =>
    cases n with
    | none => rfl
    | some k => exact exit_states_ne s k m (Ne.symm (h k (Or.inl rfl)))
  | reset k => exact reset_states_ne s k m (Ne.symm (h k (Or.inr (Or.inl rfl))))

/-- Names that are not entered in a shaped word keep their state; names that are entered (and are
    truthy) are not IN_PROGRESS afterwards. -/
theorem shaped_states {w : List Ev} (hw : Shaped w) :
    ∀ (s : TrSt) (m : Str),
      (m ∉ entered w → dGet m (runEvs s w).states = dGet m s.states) ∧
      (m ∈ entered w → m ≠ [] → dGet m (runEvs s w).states ≠ some .inProgress) := by
  induction hw with
  | nil =>
    intro s m
    exact ⟨fun _ => rfl, fun h => by simp [entered] at h⟩
  | cont n a w w2 _ _ ih1 ih2 =>
    intro s m
    rw [runEvs_cons, runEvs_append, runEvs_cons]
    -- state after the bracket `enter n · w · exit n`
    have key : (n ≠ some m → m ∉ entered w →
          dGet m (apply (runEvs (apply s (.enter n a .continueParsing)) w) (.exit n)).states
            = dGet m s.states) ∧
        ((n = some m ∨ m ∈ entered w) → m ≠ [] →
          dGet m (apply (runEvs (apply s (.enter n a .continueParsing)) w) (.exit n)).states
            ≠ some .inProgress) := by
      constructor
      · intro hn hm
        rw [apply_states_not_entered _ _ m (by
          rintro k (h | h | ⟨_, _, h⟩) <;> simp at h
          subst h; intro e; exact hn (by rw [e])), (ih1 _ m).1 hm]
        exact apply_states_not_entered _ _ m (by
          rintro k (h | h | ⟨_, _, h⟩) <;> simp at h
          obtain ⟨h, _⟩ := h
          subst h; intro e; exact hn (by rw [e]))
      · intro h hne
        by_cases hn : n = some m
        · subst hn
          exact exit_not_inProgress _ m hne
        · have hm : m ∈ entered w := h.resolve_left hn
          rw [apply_states_not_entered _ _ m (by
            rintro k (h | h | ⟨_, _, h⟩) <;> simp at h
            subst h; intro e; exact hn (by rw [e]))]
          exact (ih1 _ m).2 hm hne
    have hent : entered (Ev.enter n a .continueParsing :: (w ++ Ev.exit n :: w2))
        = (match n with | some k => [k] | none => []) ++ entered w ++ entered w2 := by
      cases n <;> simp [entered, entered_append]
    rw [hent]
    constructor
    · intro hm
      have hm' : n ≠ some m ∧ m ∉ entered w ∧ m ∉ entered w2 := by
        cases n with
        | none => simp at hm; exact ⟨by simp, hm.1, hm.2⟩
        | some k =>
          simp at hm
          exact ⟨by simp; exact fun e => hm.1 e.symm, hm.2.1, hm.2.2⟩
      rw [(ih2 _ m).1 hm'.2.2]
      exact key.1 hm'.1 hm'.2.1
    · intro hm hne
      by_cases h2 : m ∈ entered w2
      · exact (ih2 _ m).2 h2 hne
      · rw [(ih2 _ m).1 h2]
        refine key.2 ?_ hne
        cases n with
        | none => simp at hm; exact Or.inr (hm.resolve_right h2)
        | some k =>
          simp at hm
          rcases hm with h | h | h
          · exact Or.inl (by rw [h])
          · exact Or.inr h
          · exact absurd h h2
  | stop n a act w2 _ _ ih =>
    intro s m
    rw [runEvs_cons, runEvs_cons]
    have hent : entered (Ev.enter n a act :: Ev.exit n :: w2)
        = (match n with | some k => [k] | none => []) ++ entered w2 := by
      cases n <;> simp [entered]
    rw [hent]
    constructor
    · intro hm
      have hm' : n ≠ some m ∧ m ∉ entered w2 := by
        cases n with
        | none => simp at hm; exact ⟨by simp, hm⟩
        | some k =>
          simp at hm
          exact ⟨by simp; exact fun e => hm.1 e.symm, hm.2⟩
      rw [(ih _ m).1 hm'.2]
      rw [apply_states_not_entered _ _ m (by
        rintro k (h | h | ⟨_, _, h⟩) <;> simp at h
        subst h; intro e; exact hm'.1 (by rw [e]))]
      exact apply_states_not_entered _ _ m (by
        rintro k (h | h | ⟨_, _, h⟩) <;> simp at h
        obtain ⟨h, _⟩ := h
        subst h; intro e; exact hm'.1 (by rw [e]))
    · intro hm hne
      by_cases h2 : m ∈ entered w2
      · exact (ih _ m).2 h2 hne
      · rw [(ih _ m).1 h2]
        have hn : n = some m := by
          cases n with
          | none => simp at hm; exact absurd hm h2
          | some k =>
            simp at hm
            rcases hm with h | h
            · rw [h]
            · exact absurd h h2
        subst hn
        exact exit_not_inProgress _ m hne
  | fall n a w w2 _ _ ih1 ih2 =>
    intro s m
    rw [runEvs_cons, runEvs_cons, runEvs_append, runEvs_append, runEvs_cons]
    have hent : entered (Ev.enter n a .returnExisting :: Ev.exit n ::
          (resetEvs n ++ (w ++ Ev.exit n :: w2)))
        = (match n with | some k => [k] | none => []) ++ entered w ++ entered w2 := by
      cases n <;> simp [entered, entered_append, entered_resetEvs]
    rw [hent]
    constructor
    · intro hm
      have hm' : n ≠ some m ∧ m ∉ entered w ∧ m ∉ entered w2 := by
        cases n with
        | none => simp at hm; exact ⟨by simp, hm.1, hm.2⟩
        | some k =>
          simp at hm
          exact ⟨by simp; exact fun e => hm.1 e.symm, hm.2.1, hm.2.2⟩
      have hk : ∀ (t : TrSt) (k : Str), (Ev.exit n = .exit (some k) ∨ Ev.exit n = .reset k ∨
          ∃ a' act, Ev.exit n = .enter (some k) a' act) → k ≠ m := by
        rintro t k (h | h | ⟨_, _, h⟩) <;> simp at h
        subst h; intro e; exact hm'.1 (by rw [e])
      rw [(ih2 _ m).1 hm'.2.2, apply_states_not_entered _ _ m (hk s), (ih1 _ m).1 hm'.2.1,
        runEvs_resetEvs_states_ne _ _ _ hm'.1, apply_states_not_entered _ _ m (hk s)]
      exact apply_states_not_entered _ _ m (by
        rintro k (h | h | ⟨_, _, h⟩) <;> simp at h
        obtain ⟨h, _⟩ := h
        subst h; intro e; exact hm'.1 (by rw [e]))
    · intro hm hne
      by_cases h2 : m ∈ entered w2
      · exact (ih2 _ m).2 h2 hne
      · rw [(ih2 _ m).1 h2]
        by_cases hn : n = some m
        · subst hn
          exact exit_not_inProgress _ m hne
        · have hmw : m ∈ entered w := by
            cases n with
            | none => simp at hm; exact hm.resolve_right h2
            | some k =>
              simp at hm
              rcases hm with h | h | h
              · exact absurd (by rw [h]) hn
              · exact h
              · exact absurd h h2
          rw [apply_states_not_entered _ _ m (by
            rintro k (h | h | ⟨_, _, h⟩) <;> simp at h
            subst h; intro e; exact hn (by rw [e]))]
          exact (ih1 _ m).2 hmw hne

end Pog.Trk
