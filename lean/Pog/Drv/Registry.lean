import Pog.Drv.Util
import Pog.Model.Registry
open Lean Pog Pog.Drv
namespace Pog.Drv

def registryFns : List String :=
  ["isSharedCore", "isSharedCoreFor", "registryRun", "registryTrace", "aliasName", "aliasBase", "specCodes",
   "isErrorCode", "isClientError", "isServerError"]

private def getOpt (f : Json → Except String α) (j : Json) : Except String (Option α) :=
  if j.isNull then pure none else do pure (some (← f j))

def getGen (j : Json) : Except String Gen := do
  let client ← getOpt getStr (← j.getObjVal? "client")
  let declared ← getList getNat (← j.getObjVal? "declared")
  let shared ← getBool (← j.getObjVal? "shared")
  pure ⟨client, declared, shared⟩

/-- registry entries sorted by client name (the file is written with `sort_keys=True`) -/
def jstate (s : State) : Json :=
  let reg := s.registry.toArray.qsort (fun a b => String.ofList a.1 < String.ofList b.1)
  Json.mkObj [
    ("registry", Json.arr (reg.map (fun (c, codes) => Json.arr #[jstr c, jlist jnat codes]))),
    ("aliases", jlist jnat s.aliases)]

def registryRun (f : String) (a : Array Json) : Except String Json := do
  match f with
  | "isSharedCore" =>
    let root ← getOpt getStrs (← argN a 0)
    pure (Json.bool (isSharedCore root (← getStrs (← argN a 1))))
  | "isSharedCoreFor" =>
    let root ← getOpt getStrs (← argN a 0)
    let client ← getOpt getStrs (← argN a 2)
    pure (Json.bool (isSharedCoreFor root (← getStrs (← argN a 1)) client))
  | "registryRun" => pure (jstate (run (← getList getGen (← argN a 0))))
  | "registryTrace" => pure (jlist jstate (trace State.empty (← getList getGen (← argN a 0))))
  | "aliasName" => pure (jstr (aliasName (← getNat (← argN a 0))))
  | "aliasBase" => pure (jopt (fun b => jstr b.name) (aliasBase (← getNat (← argN a 0))))
  | "specCodes" => pure (jlist jnat (specCodes (← getList getNat (← argN a 0))))
  | "isErrorCode" => pure (Json.bool (isErrorCode (← getNat (← argN a 0))))
  | "isClientError" => pure (Json.bool (isClientError (← getNat (← argN a 0))))
  | "isServerError" => pure (Json.bool (isServerError (← getNat (← argN a 0))))
  | _ => throw s!"unknown function {f}"

def dispatchRegistry : Dispatch := fun f a _ =>
  if registryFns.contains f then some (registryRun f a) else none

end Pog.Drv
