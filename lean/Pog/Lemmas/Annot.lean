import Pog.Model.Annot
/-
  Lemmas about annotation formatting and its eager evaluation.
-/
namespace Pog.Annot
open Pog

theorem render_quoted (s : Str) : render (.quoted s) = ['"'] ++ s ++ ['"'] := by rw [render]
theorem render_bor (l r : Ann) : render (.bor l r) = render l ++ " | ".toList ++ render r := by rw [render]
theorem render_none : render .none_ = "None".toList := by rw [render]
theorem render_name (s : Str) : render (.name s) = s := by rw [render]

/-- The tree-level formatter renders to exactly what the text-level `_format_resolved_type` returns. -/
theorem render_quoteIfFwd (ty : Ann) (fwd : Bool) :
    render (quoteIfFwd ty fwd) =
      (if (fwd && !startsWith (render ty) ['"']) = true then ['"'] ++ render ty ++ ['"'] else render ty) := by
  unfold quoteIfFwd; split <;> simp [render_quoted]

theorem render_formatResolved (r : Resolved) :
    (formatResolved r).map render = formatText (render r.ty) r.isOptional r.isForwardRef := by
  unfold formatResolved formatText
  split
  · rfl
  · simp only [Option.map_some, Option.some.injEq]
    rw [← render_quoteIfFwd]
    split
    · split
      · rw [render_quoted]; simp
      · rw [render_bor, render_none]; simp [orNoneTail]
    · rfl

theorem evalKind_quoted (s : Str) (h : '"' ∉ s) : evalKind (.quoted s) = some .strV := by
  rw [evalKind]
  have : s.contains '"' = false := by
    cases hc : s.contains '"' with
    | false => rfl
    | true => exact absurd (List.contains_iff_mem.mp hc) h
  rw [this]; rfl

theorem foldOr_singleton (k : Kind) : foldOr [k] = some k := rfl

theorem foldOr_snoc (ks : List Kind) (x : Kind) (h : ks ≠ []) :
    foldOr (ks ++ [x]) = (foldOr ks).bind (fun a => orKind a x) := by
  cases ks with
  | nil => exact absurd rfl h
  | cons k rest => simp only [List.cons_append, foldOr, List.foldl_append, List.foldl_cons, List.foldl_nil]

/-- a chain's value is the left fold over its operands -/
theorem evalOperands_fold (a : Ann) : (evalOperands a).bind foldOr = evalKind a := by
  cases a with
  | name s => rw [evalOperands, evalKind]; rfl
  | quoted s => rw [evalOperands, evalKind]; split <;> rfl
  | none_ => rw [evalOperands, evalKind]; rfl
  | bor l r =>
    rw [evalOperands, evalKind]
    cases evalOperands l <;> cases evalOperands r <;> rfl
  | sub h args =>
    rw [evalOperands, evalKind]
    cases subKind h args (evalKinds args) <;> rfl

theorem evalKind_bor_none (a : Ann) (k : Kind) (h : evalKind a = some k) :
    evalKind (.bor a .none_) = orKind k .noneV := by
  rw [← evalOperands_fold] at h
  cases ho : evalOperands a with
  | none => rw [ho] at h; cases h
  | some ks =>
    rw [ho] at h
    simp only [Option.bind_some] at h
    have hne : ks ≠ [] := by intro e; subst e; cases h
    rw [evalKind, ho]
    simp only [evalOperands]
    rw [foldOr_snoc ks _ hne, h]; rfl

theorem evalOK_of_kind {a : Ann} {k : Kind} (h : evalKind a = some k) : evalOK a = true := by
  simp [evalOK, h]

/-! ## one string literal: `isQuotedLit` / `unquote` -/

theorem unquote_quoted (s : Str) : unquote (['"'] ++ s ++ ['"']) = s := by
  simp [unquote]

theorem isQuotedLit_quoted (s : Str) (h : '"' ∉ s) : isQuotedLit (['"'] ++ s ++ ['"']) = true := by
  have hc : s.count '"' = 0 := List.count_eq_zero.mpr h
  simp [isQuotedLit, startsWith, endsWith, List.count_append, hc]

/-- what is between the quotes of a text that passes the test holds no quote: putting ` | None` there gives a literal again -/
theorem isQuotedLit_inner (t : Str) (h : isQuotedLit t = true) : '"' ∉ unquote t := by
  unfold isQuotedLit at h
  simp only [Bool.and_eq_true, beq_iff_eq] at h
  obtain ⟨⟨hs, he⟩, hc⟩ := h
  cases t with
  | nil => simp [unquote]
  | cons c u =>
    have hc1 : c = '"' := by
      simp [startsWith] at hs
      exact hs.symm
    subst hc1
    have hcu : u.count '"' = 1 := by
      simp at hc
      exact hc
    rcases List.eq_nil_or_concat u with rfl | ⟨v, x, rfl⟩
    · simp at hcu
    · rw [List.concat_eq_append] at he hcu ⊢
      have hx : x = '"' := by
        simp [endsWith] at he
        exact he.symm
      subst hx
      have hv : v.count '"' = 0 := by
        simp [List.count_append] at hcu
        exact hcu
      simp only [unquote, List.drop_succ_cons, List.drop_zero, List.dropLast_concat]
      exact List.count_eq_zero.mp hv

/-! ## which expressions evaluate to a string / to `None` -/

theorem orKind_kind {a b k : Kind} (h : orKind a b = some k) : k = .ty ∨ k = .alias := by
  cases a <;> cases b <;> simp [orKind] at h <;> simp [← h]

theorem foldOr_kind {k1 k2 : Kind} {ks : List Kind} {k : Kind} (h : foldOr (k1 :: k2 :: ks) = some k) :
    k = .ty ∨ k = .alias := by
  rcases List.eq_nil_or_concat (k2 :: ks) with he | ⟨v, x, he⟩
  · cases he
  · rw [he, List.concat_eq_append, ← List.cons_append, foldOr_snoc _ _ (by simp)] at h
    cases hf : foldOr (k1 :: v) with
    | none => rw [hf] at h; cases h
    | some a => rw [hf] at h; exact orKind_kind h

theorem unionKind_kind (l : List Kind) : unionKind l = .ty ∨ unionKind l = .alias := by
  unfold unionKind; split <;> simp

theorem subKind_kind {h : Ann} {args : List Ann} {ks : Option (List Kind)} {k : Kind}
    (hk : subKind h args ks = some k) : k = .ty ∨ k = .alias := by
  unfold subKind at hk
  repeat' (split at hk)
  all_goals (try cases hk)
  all_goals first | exact Or.inl rfl | exact Or.inr rfl | exact unionKind_kind _

theorem evalOperands_ne_nil : (a : Ann) → (ks : List Kind) → evalOperands a = some ks → ks ≠ []
  | .name _, ks, h => by rw [evalOperands] at h; cases h; simp
  | .quoted s, ks, h => by
    rw [evalOperands] at h
    split at h
    · cases h
    · cases h; simp
  | .none_, ks, h => by rw [evalOperands] at h; cases h; simp
  | .bor l r, ks, h => by
    rw [evalOperands] at h
    split at h
    · rename_i a b ha hb
      cases h
      have := evalOperands_ne_nil l a ha
      simp [this]
    · cases h
  | .sub hd args, ks, h => by
    rw [evalOperands] at h
    cases hs : subKind hd args (evalKinds args) with
    | none => rw [hs] at h; cases h
    | some k => rw [hs] at h; cases h; simp

/-- only a string literal evaluates to a string … -/
theorem evalKind_strV {a : Ann} (h : evalKind a = some .strV) : ∃ s, a = .quoted s ∧ '"' ∉ s := by
  cases a with
  | name s => rw [evalKind] at h; cases h
  | quoted s =>
    rw [evalKind] at h
    split at h
    · cases h
    · rename_i hc
      refine ⟨s, rfl, fun hm => hc (List.contains_iff_mem.mpr hm)⟩
  | none_ => rw [evalKind] at h; cases h
  | bor l r =>
    rw [evalKind] at h
    split at h
    · rename_i x y hx hy
      have h1 := evalOperands_ne_nil l x hx
      have h2 := evalOperands_ne_nil r y hy
      cases x with
      | nil => exact absurd rfl h1
      | cons x1 xs =>
        cases y with
        | nil => exact absurd rfl h2
        | cons y1 ys =>
          cases xs with
          | nil => rcases foldOr_kind (k1 := x1) (k2 := y1) (ks := ys) h with h' | h' <;> cases h'
          | cons x2 xs' =>
            rcases foldOr_kind (k1 := x1) (k2 := x2) (ks := xs' ++ y1 :: ys) h with h' | h' <;> cases h'
    · cases h
  | sub hd args =>
    rw [evalKind] at h
    rcases subKind_kind h with h' | h' <;> cases h'

/-- … and only `None` evaluates to `None` -/
theorem evalKind_noneV {a : Ann} (h : evalKind a = some .noneV) : a = .none_ := by
  cases a with
  | name s => rw [evalKind] at h; cases h
  | quoted s => rw [evalKind] at h; split at h <;> cases h
  | none_ => rfl
  | bor l r =>
    rw [evalKind] at h
    split at h
    · rename_i x y hx hy
      have h1 := evalOperands_ne_nil l x hx
      have h2 := evalOperands_ne_nil r y hy
      cases x with
      | nil => exact absurd rfl h1
      | cons x1 xs =>
        cases y with
        | nil => exact absurd rfl h2
        | cons y1 ys =>
          cases xs with
          | nil => rcases foldOr_kind (k1 := x1) (k2 := y1) (ks := ys) h with h' | h' <;> cases h'
          | cons x2 xs' =>
            rcases foldOr_kind (k1 := x1) (k2 := x2) (ks := xs' ++ y1 :: ys) h with h' | h' <;> cases h'
    · cases h
  | sub hd args =>
    rw [evalKind] at h
    rcases subKind_kind h with h' | h' <;> cases h'

/-! ## the optional marker -/

/-- The optional marker of `_format_resolved_type` on anything that evaluates and is not `None`: inside the quotes of a string
    literal (a string literal again), `… | None` after a class / generic alias / typing object. -/
theorem optMark_evaluable (a0 : Ann) (k0 : Kind) (h0 : evalKind a0 = some k0) (hn : k0 ≠ .noneV) :
    evalOK (if isQuotedLit (render a0) = true then .quoted (unquote (render a0) ++ orNoneTail) else .bor a0 .none_) = true := by
  split
  · rename_i hq
    apply evalOK_of_kind (evalKind_quoted _ _)
    intro hm
    rcases List.mem_append.mp hm with h | h
    · exact isQuotedLit_inner _ hq h
    · revert h; decide
  · rename_i hq
    cases k0 with
    | ty => exact evalOK_of_kind (by rw [evalKind_bor_none _ _ h0]; rfl)
    | alias => exact evalOK_of_kind (by rw [evalKind_bor_none _ _ h0]; rfl)
    | noneV => exact absurd rfl hn
    | strV =>
      obtain ⟨s, rfl, hs⟩ := evalKind_strV h0
      rw [render_quoted] at hq
      exact absurd (isQuotedLit_quoted s hs) hq

/-- `_format_resolved_type` keeps an evaluable annotation evaluable unless it appends `| None` to `None` itself
    (F1 repaired: the marker of a quoted forward reference goes inside the quotes). -/
theorem format_evaluable (r : Resolved) (k : Kind) (hk : evalKind r.ty = some k)
    (hq : r.isForwardRef = true → '"' ∉ render r.ty)
    (hc : r.isOptional = true → ¬ (r.isForwardRef = false ∧ k = .noneV))
    (a : Ann) (ha : formatResolved r = some a) : evalOK a = true := by
  -- the (possibly quoted) base evaluates, and to `None` only when it is the unquoted `None`
  have hbase : ∃ k0, evalKind (quoteIfFwd r.ty r.isForwardRef) = some k0 ∧
      (k0 = .noneV → r.isForwardRef = false ∧ k = .noneV) := by
    unfold quoteIfFwd
    split
    · rename_i h1
      simp only [Bool.and_eq_true] at h1
      exact ⟨.strV, evalKind_quoted _ (hq h1.1), fun h => by cases h⟩
    · rename_i h1
      refine ⟨k, hk, fun hkn => ⟨?_, hkn⟩⟩
      subst hkn
      have hty := evalKind_noneV hk
      cases hf : r.isForwardRef with
      | false => rfl
      | true =>
        exfalso; apply h1
        rw [hf, hty, render_none]; decide
  obtain ⟨k0, hk0, hk0n⟩ := hbase
  unfold formatResolved at ha
  split at ha
  · cases ha
  · simp only [Option.some.injEq] at ha
    subst ha
    split
    · rename_i hcond
      simp only [Bool.and_eq_true] at hcond
      exact optMark_evaluable _ k0 hk0 (fun h => hc hcond.1 (hk0n h))
    · exact evalOK_of_kind hk0

/-- … and it breaks it whenever it DOES append `| None` to `None`. -/
theorem format_not_evaluable (r : Resolved) (hk : evalKind r.ty = some .noneV)
    (hopt : r.isOptional = true) (hf : r.isForwardRef = false) :
    ∃ a, formatResolved r = some a ∧ evalOK a = false := by
  obtain ⟨ty, o, f⟩ := r
  simp only at hk hopt hf
  have hty := evalKind_noneV hk
  subst hty hopt hf
  exact ⟨.bor .none_ .none_, by rfl, by decide +kernel⟩

/-! ## arrays -/

theorem evalKind_list (x : Ann) (k : Kind) (h : evalKind x = some k) :
    evalKind (.sub (.name "List".toList) [x]) = some .alias := by
  have h1 : builtinHeads.contains "List".toList = false := by decide
  have h2 : typingHeads.lookup "List".toList = some (some 1) := by decide
  have h3 : ("List".toList = "Union".toList) = False := by decide
  have h4 : ("List".toList = "Optional".toList) = False := by decide
  rw [evalKind]
  simp only [evalKinds, h, subKind, h1, h2, h3, h4, Bool.false_eq_true, if_false, List.length_singleton,
    decide_true, if_true]

theorem render_list_prefix (x : Ann) :
    startsWith (render (.sub (.name "List".toList) [x])) optionalPrefix = false := by
  rw [render, render_name]
  rfl

/-- `List[<item>]` (item quoted when it is a forward reference) is evaluable, optional or not: a
    self-referencing ARRAY property is fine. -/
theorem listOf_evaluable (item : Resolved) (k : Kind) (hk : evalKind item.ty = some k)
    (hq : item.isForwardRef = true → '"' ∉ render item.ty) (required : Bool)
    (a : Ann) (ha : formatResolved (listOf item required) = some a) : evalOK a = true := by
  have hx : ∃ k', evalKind (quoteIfFwd item.ty item.isForwardRef) = some k' := by
    unfold quoteIfFwd
    split
    · rename_i h1
      simp only [Bool.and_eq_true] at h1
      exact ⟨_, evalKind_quoted _ (hq h1.1)⟩
    · exact ⟨k, hk⟩
  obtain ⟨k', hk'⟩ := hx
  refine format_evaluable (listOf item required) .alias (evalKind_list _ _ hk') ?_ ?_ a ha
  · intro h; simp [listOf] at h
  · intro _ h; cases h.2

end Pog.Annot
