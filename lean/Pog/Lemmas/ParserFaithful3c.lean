import Pog.Lemmas.ParserFaithful3b
import Pog.Lemmas.ParserFaithful3s
/-
  Lemmas about M-parser, part 6c: property loops, inline objects, `allOf`, declared schemas, induction on the
  fuel, the top-level loop.
-/
namespace Pog.Prs
open Pog Pog.Trk

/-! ### properties of an inline object / of an inline `allOf` member -/

theorem innerProp3_cases (names : List Str) (p : Node) (h : innerProp3 names p = true) :
    (∃ ty, p.core = .prim ty false) ∨
    (∃ t, p.core = .ref t ∧ t ∈ names ∧ t.contains '/' = false ∧ t ≠ []) ∨
    (∃ i, p.core = .arr i ∧ leaf3 names i = true) := by
  unfold innerProp3 at h
  split at h
  · rename_i ty e; exact Or.inl ⟨ty, e⟩
  · rename_i t e
    rcases simpleProp_cases names _ h with ⟨ty', e'⟩ | ⟨t', e', h1, h2, h3⟩
    · cases e'
    · cases e'
      exact Or.inr (Or.inl ⟨t, e, h1, h2, h3⟩)
  · rename_i i e; exact Or.inr (Or.inr ⟨i, e, h⟩)
  · cases h

theorem propStep_inner3 (decls : Decls) (rank : Str → Nat) (hS : Simple3 decls rank) (P : PFn) (r : Nat)
    (hC : CoreInv P) (hPrim : PrimSpec P) (hNamed : SpecP3 decls rank P r) (hArr : ArrSpec3 decls rank P r)
    (par : Option Str) (k : Str) (p : Node) (s : PSt) (R : Nat)
    (h : innerProp3 (decls.map (·.1)) p = true) (c1 : innerCost3 rank p ≤ R) (c2 : innerCost3 rank p ≤ r)
    (c3 : s.tr.depth + innerCost3 rank p ≤ s.tr.maxDepth) (hw : WF3 decls rank s) (hk : TK3 decls rank s R) :
    PropPost3 decls rank [] s k p (propStep decls P par true k p s) := by
  rw [propStep_core decls P hC]
  unfold PropPost3
  rw [← nodeKind_core p]
  unfold innerCost3 at c1 c2 c3
  rcases innerProp3_cases _ p h with ⟨ty, e⟩ | ⟨t, e, hmem, hno, hne⟩ | ⟨i, e, hi⟩
  · rw [e]
    exact propStep_prim3 decls rank P hPrim par k ty s hw
  · rw [e] at c1 c2 c3 ⊢
    simp only at c1 c2 c3
    exact propStep_ref3 decls rank hS P r hNamed par k t s hw (TK3.anti hk c1) hmem hno hne (by omega) (by omega)
  · rw [e] at c1 c2 c3 ⊢
    simp only at c1 c2 c3
    exact propStep_arr3 decls rank P r hArr par k i s R hi (by omega) (by omega) (by omega) hw hk

theorem All2.keysK {names : List Str} {s : PSt} {F : List (Str × Kind)} {acc : List (Str × Nat)}
    (h : All2 (FieldK names s) F acc) : acc.map (·.1) = F.map (·.1) := by
  induction h with
  | nil => rfl
  | cons hab _ ih => simp [hab.1, ih]

theorem TK3.step0 {decls : Decls} {rank : Str → Nat} {s s' : PSt} {R : Nat} (h : Step s s')
    (o : Own3 decls [] s s') (hk : TK3 decls rank s R) : TK3 decls rank s' R :=
  TK3.step h o (fun _ _ _ _ hin => by cases hin) hk

theorem parseProps_inner3 (decls : Decls) (rank : Str → Nat) (hS : Simple3 decls rank) (P : PFn) (r : Nat)
    (hC : CoreInv P) (hPrim : PrimSpec P) (hNamed : SpecP3 decls rank P r) (hArr : ArrSpec3 decls rank P r)
    (par : Option Str) (R : Nat) :
    ∀ (rest done : List (Str × Node)) (acc : List (Str × Nat)) (s0 sc : PSt),
      (∀ kv ∈ rest, kv.1 ≠ [] ∧ innerProp3 (decls.map (·.1)) kv.2 = true ∧ innerCost3 rank kv.2 ≤ R ∧
          innerCost3 rank kv.2 ≤ r ∧ s0.tr.depth + innerCost3 rank kv.2 ≤ s0.tr.maxDepth) →
      ((done ++ rest).map (·.1)).Nodup →
      Step s0 sc → Own3 decls [] s0 sc → WF3 decls rank sc → TK3 decls rank sc R →
      All2 (FieldK (decls.map (·.1)) sc) (done.map toK) acc →
      Step s0 (parseProps decls P par true rest acc sc).2 ∧
      Own3 decls [] s0 (parseProps decls P par true rest acc sc).2 ∧
      WF3 decls rank (parseProps decls P par true rest acc sc).2 ∧
      TK3 decls rank (parseProps decls P par true rest acc sc).2 R ∧
      All2 (FieldK (decls.map (·.1)) (parseProps decls P par true rest acc sc).2) ((done ++ rest).map toK)
        (parseProps decls P par true rest acc sc).1 := by
  intro rest
  induction rest with
  | nil =>
    intro done acc s0 sc _ _ hst hown hw hk hall
    simp only [parseProps, List.append_nil]
    exact ⟨hst, hown, hw, hk, hall⟩
  | cons kv rest ih =>
    intro done acc s0 sc hrest hnd hst hown hw hk hall
    obtain ⟨k, p⟩ := kv
    obtain ⟨hkne, hinner, c1, c2, c3⟩ := hrest (k, p) (List.mem_cons_self ..)
    have hkemp : k.isEmpty = false := by
      cases k with
      | nil => exact absurd rfl hkne
      | cons c cs => rfl
    have hnotin : dHas k acc = false := by
      rw [dHas_iff_contains, hall.keysK]
      cases hc : ((done.map toK).map (·.1)).contains k with
      | false => rfl
      | true =>
        have hmem : k ∈ done.map (·.1) := by
          have := List.contains_iff_mem.mp hc
          simpa [toK, List.map_map, Function.comp_def] using this
        simp only [List.map_append, List.map_cons] at hnd
        have := (List.nodup_append.mp hnd).2.2 k hmem k (List.mem_cons_self ..)
        exact absurd rfl this
    simp only [parseProps, hkemp, hnotin, Bool.or_self, Bool.false_eq_true, if_false]
    obtain ⟨h1, h2, h3, h4⟩ := propStep_inner3 decls rank hS P r hC hPrim hNamed hArr par k p sc R hinner c1 c2
      (by rw [hst.depth, hst.maxDepth]; exact c3) hw hk
    rw [dSet_of_not_has _ _ _ hnotin]
    have hall' : All2 (FieldK (decls.map (·.1)) (propStep decls P par true k p sc).2) ((done ++ [(k, p)]).map toK)
        (acc ++ [(k, (propStep decls P par true k p sc).1)]) := by
      rw [List.map_append]
      exact All2.snoc (All2.imp (fun a b hab => FieldK.step h1.hstep.toW a b hab) hall) h4
    have := ih (done ++ [(k, p)]) _ s0 _ (fun kv hkv => hrest kv (List.mem_cons_of_mem _ hkv))
      (by simpa [List.append_assoc] using hnd) (Step.trans hst h1)
      (Own3.trans hst h1 hown h2) h3 (TK3.step0 h1 h2 hk) hall'
    simpa [List.append_assoc] using this

/-! ### an inline object (named, promoted) and an inline `allOf` member (anonymous) -/

def innerOK3 (decls : Decls) (rank : Str → Nat) (ps : List (Str × Node)) (s : PSt) (R r : Nat) : Prop :=
  innerProps3 (decls.map (·.1)) ps = true ∧ 0 < r ∧
  ∀ kv ∈ ps, innerCost3 rank kv.2 ≤ R ∧ innerCost3 rank kv.2 < r ∧
    s.tr.depth + innerCost3 rank kv.2 + 1 ≤ s.tr.maxDepth

def InlSpec3 (decls : Decls) (rank : Str → Nat) (P : PFn) (r : Nat) : Prop :=
  ∀ c ps req s R, CtxPre3 decls rank c s R → innerOK3 decls rank ps s R r → s.tr.depth + 1 ≤ s.tr.maxDepth →
    CtxPost3 decls rank c s (P (some c) (.obj (some ps) req none) true s) sObject false

def AnonObjSpec3 (decls : Decls) (rank : Str → Nat) (P : PFn) (r : Nat) : Prop :=
  ∀ ps req s R, WF3 decls rank s → TK3 decls rank s R → innerOK3 decls rank ps s R r →
    Step s (P none (.obj (some ps) req none) true s).2 ∧
    Own3 decls [] s (P none (.obj (some ps) req none) true s).2 ∧
    WF3 decls rank (P none (.obj (some ps) req none) true s).2 ∧
    (P none (.obj (some ps) req none) true s).1 < (P none (.obj (some ps) req none) true s).2.heap.length ∧
    All2 (FieldK (decls.map (·.1)) (P none (.obj (some ps) req none) true s).2) (ps.map toK)
      ((P none (.obj (some ps) req none) true s).2.get (P none (.obj (some ps) req none) true s).1).props ∧
    ((P none (.obj (some ps) req none) true s).2.get (P none (.obj (some ps) req none) true s).1).required = dedup req

theorem innerProps3_inv (names : List Str) (ps : List (Str × Node)) (h : innerProps3 names ps = true) :
    (∀ kv ∈ ps, kv.1 ≠ [] ∧ innerProp3 names kv.2 = true) ∧ (ps.map (·.1)).Nodup := by
  simp only [innerProps3, Bool.and_eq_true, List.all_eq_true, decide_eq_true_eq] at h
  refine ⟨?_, h.2⟩
  intro kv hkv
  have := h.1 kv hkv
  simp only [Bool.not_eq_true'] at this
  refine ⟨?_, this.2⟩
  intro e
  rw [e] at this
  simp at this

theorem parseStep_inlSpec3 (decls : Decls) (rank : Str → Nat) (hS : Simple3 decls rank) (P : PFn) (r : Nat)
    (hC : CoreInv P) (hPrim : PrimSpec P) (hNamed : SpecP3 decls rank P r) (hArr : ArrSpec3 decls rank P r) :
    InlSpec3 decls rank (parseStep decls P) (r + 1) := by
  intro c ps req s R hpre hin hd
  obtain ⟨he, hk1, hw1⟩ := hpre.enter hd
  have hps := parseStep_named_eq decls P c (.obj (some ps) req none) s he
  rw [body_obj_eq decls P c ps req _ hpre.2.2.1 hpre.2.1] at hps
  obtain ⟨hprops, hnodup⟩ := innerProps3_inv _ ps hin.1
  obtain ⟨l1, l2, l3, _, l5⟩ := parseProps_inner3 decls rank hS P r hC hPrim hNamed hArr (some c) R ps [] []
    (afterEnter s c) (afterEnter s c)
    (fun kv hkv => ⟨(hprops kv hkv).1, (hprops kv hkv).2, (hin.2.2 kv hkv).1, by have := (hin.2.2 kv hkv).2.1; omega, by
      have := (hin.2.2 kv hkv).2.2
      show s.tr.depth + 1 + _ ≤ s.tr.maxDepth
      omega⟩)
    (by simpa using hnodup) (Step.refl _) (Own3.of_states_eq rfl) hw1 hk1 .nil
  generalize hq : parseProps decls P (some c) true ps [] (afterEnter s c) = q at l1 l2 l3 l5 hps
  obtain ⟨fp, se⟩ := q
  simp only at l1 l2 l3 l5 hps
  obtain ⟨sf, heq, hst, hown, hwf, hreg, hlt, hfget⟩ :=
    ctx_close decls rank c s se R { name := some c, type := some sObject, props := fp, required := dedup req }
      hpre l1 l2 l3 rfl (by
        intro t ht hpt _
        cases ht
        exact absurd hpt (by decide))
  have hps' : parseStep decls P (some c) (.obj (some ps) req none) true s = (se.heap.length, sf) := by
    rw [hps]; exact heq
  rw [hps']
  exact ⟨hst, hown, hwf, hreg, hlt, by rw [hfget], by rw [hfget]; rfl, by rw [hfget], by rw [hfget], by rw [hfget]⟩

theorem body_obj_anon_eq (decls : Decls) (P : PFn) (ps : List (Str × Node)) (req : List Str) (s : PSt) :
    body decls P none (.obj (some ps) req none) true s =
      (parseProps decls P none true ps [] s).2.alloc
        { type := some sObject, props := (parseProps decls P none true ps [] s).1, required := dedup req } := by
  simp [body, Node.core, truthy, mkIR, finish]

theorem parseStep_anonObjSpec3 (decls : Decls) (rank : Str → Nat) (hS : Simple3 decls rank) (P : PFn) (r : Nat)
    (hC : CoreInv P) (hPrim : PrimSpec P) (hNamed : SpecP3 decls rank P r) (hArr : ArrSpec3 decls rank P r) :
    AnonObjSpec3 decls rank (parseStep decls P) (r + 1) := by
  intro ps req s R hw hk hin
  rw [parseStep_anon_eq, body_obj_anon_eq]
  obtain ⟨hprops, hnodup⟩ := innerProps3_inv _ ps hin.1
  obtain ⟨l1, l2, l3, _, l5⟩ := parseProps_inner3 decls rank hS P r hC hPrim hNamed hArr none R ps [] []
    (anonIn s) (anonIn s)
    (fun kv hkv => ⟨(hprops kv hkv).1, (hprops kv hkv).2, (hin.2.2 kv hkv).1, by have := (hin.2.2 kv hkv).2.1; omega, by
      have := (hin.2.2 kv hkv).2.2
      show s.tr.depth + 1 + _ ≤ s.tr.maxDepth
      omega⟩)
    (by simpa using hnodup) (Step.refl _) (Own3.of_states_eq rfl) hw.anonIn hk.anonIn .nil
  generalize hq : parseProps decls P none true ps [] (anonIn s) = q at l1 l2 l3 l5
  obtain ⟨fp, se⟩ := q
  simp only [List.nil_append] at l1 l2 l3 l5 ⊢
  generalize hM : ({ type := some sObject, props := fp, required := dedup req } : IR) = M
  have hh : (se.alloc M).2.heap = se.heap ++ [M] := rfl
  have hr' : (se.alloc M).2.reg = se.reg := rfl
  have hst : Step se (se.alloc M).2 := step_of_ext _ hh hr' rfl (TrSame.rfl' _)
  have hhs := (hstep_of_ext _ hh hr').toW
  have hg : (se.alloc M).2.get se.heap.length = M := get_alloc _ _
  refine ⟨step_anon (Step.trans l1 hst), own_anon3 (Own3.trans l1 hst l2 (Own3.of_states_eq rfl)),
    (WF3.step hhs hr' l3).anonOut, ?_, ?_, ?_⟩
  · show se.heap.length < (se.heap ++ [M]).length
    simp
  · show All2 _ _ ((se.alloc M).2.get se.heap.length).props
    rw [hg]
    have hhs2 : HStepW se (anonOut (se.alloc M).2) :=
      HStepW.trans hhs (hstep_of_eq (s := (se.alloc M).2) (s' := anonOut (se.alloc M).2) rfl rfl).toW
    subst hM
    exact All2.imp (fun a b hab => FieldK.step hhs2 a b hab) l5
  · show ((se.alloc M).2.get se.heap.length).required = _
    rw [hg, ← hM]

theorem propInline_eq (P : PFn) (n k : Str) (p : Node) (s : PSt) (mid : Nat) (sm : PSt) (hk : k ≠ [])
    (hq : P (some (n ++ sanClass k)) p true s = (mid, sm))
    (hreg : dGet (n ++ sanClass k) sm.reg = some mid) (hname : (sm.get mid).name = some (n ++ sanClass k))
    (hfull : (sm.get mid).kind = .full) :
    propInline P (some n) true k p s =
      sm.alloc { name := some (sanClass k), type := some (n ++ sanClass k), refersTo := some mid } := by
  obtain ⟨f1, f2, _, f4⟩ := kind_full_flags hfull
  have hc : n ++ sanClass k ≠ [] := fun e => sanClass_ne_nil k (List.append_eq_nil_iff.mp e).2
  have hmk : mkIR { name := some k, type := some (n ++ sanClass k), refersTo := some mid } =
      { name := some (sanClass k), type := some (n ++ sanClass k), refersTo := some mid } := by
    simp [mkIR, truthy_of_ne k hk]
  have hreg' : ∀ H : IR, dGet (n ++ sanClass k) (sm.alloc H).2.reg = some mid := fun _ => hreg
  unfold propInline
  simp only [Option.getD_some, hq, hname, hmk, f1, f2, f4, Bool.not_false, Bool.and_self, if_true]
  have hkey : ∀ H : IR, regKey (sm.alloc H).2 (sm.get mid) (n ++ sanClass k) mid = n ++ sanClass k := by
    intro H
    unfold regKey
    simp [hname, truthy_of_ne _ hc, hreg' H]
  rw [hkey]
  unfold PSt.regSet
  rw [dSet_same _ _ _ (hreg' _)]

theorem propStep_inl3 (decls : Decls) (rank : Str → Nat) (P : PFn) (r : Nat) (hInl : InlSpec3 decls rank P r)
    (n k : Str) (ps : List (Str × Node)) (req : List Str) (s : PSt) (R : Nat) (hn : n ≠ []) (hk : k ≠ [])
    (hpre : CtxPre3 decls rank (n ++ sanClass k) s R) (hin : innerOK3 decls rank ps s R r)
    (hd : s.tr.depth + 1 ≤ s.tr.maxDepth) :
    PropPost3 decls rank [n ++ sanClass k] s k (.obj (some ps) req none)
      (propStep decls P (some n) true k (.obj (some ps) req none) s) := by
  have hq : propStep decls P (some n) true k (.obj (some ps) req none) s =
      propInline P (some n) true k (.obj (some ps) req none) s := by
    simp [propStep, Node.isRef, Node.isInlineObj, Node.core, truthy_of_ne n hn]
  rw [hq]
  have hpost := hInl (n ++ sanClass k) ps req s R hpre hin hd
  generalize hqq : P (some (n ++ sanClass k)) (.obj (some ps) req none) true s = q at hpost
  obtain ⟨mid, sm⟩ := q
  rw [propInline_eq P n k _ s mid sm hk hqq hpost.2.2.2.1 hpost.2.2.2.2.2.1 hpost.2.2.2.2.2.2.1]
  obtain ⟨h1, h2, h3, h4, h5⟩ := holder_post decls rank _ s mid sm _ _ hpre.1 hpost
    { name := some (sanClass k), type := some (n ++ sanClass k), refersTo := some mid } rfl rfl
  exact ⟨h1, h2, h3, rfl, by simp [nodeKind, kfuel], Or.inl ⟨h4, h5⟩⟩

/-! ### the property loop of a declared object -/

structure Spec3 (decls : Decls) (rank : Str → Nat) (P : PFn) (r : Nat) : Prop where
  core : CoreInv P
  prim : PrimSpecE P
  hit : RefHit P
  named : SpecP3 decls rank P r
  ref : RefSpec3 decls rank P r
  arr : ArrSpec3 decls rank P r
  map : MapSpec3 decls rank P r
  enum : EnumSpec3 decls rank P
  inl : InlSpec3 decls rank P r
  anonObj : AnonObjSpec3 decls rank P r

theorem simpleProp3_cases (names : List Str) (p : Node) (h : simpleProp3 names p = true) :
    (∃ ty e, p.core = .prim ty e) ∨
    (∃ t, p.core = .ref t ∧ t ∈ names ∧ t.contains '/' = false ∧ t ≠ []) ∨
    (∃ i, p.core = .arr i ∧ leaf3 names i = true) ∨
    (∃ req a, p.core = .obj none req (some a) ∧ leaf3 names a = true) ∨
    (∃ ps req, p.core = .obj (some ps) req none ∧ innerProps3 names ps = true) := by
  unfold simpleProp3 at h
  split at h
  · rename_i ty e' e; exact Or.inl ⟨ty, e', e⟩
  · rename_i t e
    rcases simpleProp_cases names _ h with ⟨ty', e'⟩ | ⟨t', e', h1, h2, h3⟩
    · cases e'
    · cases e'
      exact Or.inr (Or.inl ⟨t, e, h1, h2, h3⟩)
  · rename_i i e; exact Or.inr (Or.inr (Or.inl ⟨i, e, h⟩))
  · rename_i req a e; exact Or.inr (Or.inr (Or.inr (Or.inl ⟨req, a, e, h⟩)))
  · rename_i ps req e; exact Or.inr (Or.inr (Or.inr (Or.inr ⟨ps, req, e, h⟩)))
  · cases h

theorem simpleProp3_core (names : List Str) (p : Node) : simpleProp3 names p.core = simpleProp3 names p := by
  unfold simpleProp3; rw [core_core]
theorem propCostOK3_core (rank : Str → Nat) (R : Nat) (p : Node) : propCostOK3 rank R p.core = propCostOK3 rank R p := by
  unfold propCostOK3; rw [core_core]
theorem ctxOf3_core (n k : Str) (p : Node) : ctxOf3 n k p.core = ctxOf3 n k p := by
  unfold ctxOf3; rw [core_core]

/-- one property of the declared object `n` (node without a `nullable` wrapper) -/
theorem propStep_decl3_aux (decls : Decls) (rank : Str → Nat) (hS : Simple3 decls rank) (P : PFn) (r : Nat)
    (hP : Spec3 decls rank P r) (n : Str) (nd : Node) (hmemd : (n, nd) ∈ decls) (hRr : rank n ≤ r)
    (k : Str) (p : Node) (sc : PSt) (hcore : p.core = p) (hkne : k ≠ [])
    (hsimple : simpleProp3 (decls.map (·.1)) p = true) (hcost : propCostOK3 rank (rank n) p = true)
    (hw : WF3 decls rank sc) (hk : TK3 decls rank sc (rank n))
    (hsn : dGet n sc.tr.states = some .inProgress) (hdep : sc.tr.depth + rank n ≤ sc.tr.maxDepth)
    (hctx : ∀ c, ctxOf3 n k p = some c → c ∈ ctxs3 n nd ∧ dGet c sc.tr.states = none) :
    ∃ ex, (∀ c ∈ ex, ctxOf3 n k p = some c) ∧
      PropPost3 decls rank ex sc k p (propStep decls P (some n) true k p sc) := by
  obtain ⟨hn, _⟩ := hS.name (n, nd) hmemd
  have hn : n ≠ [] := hn
  have hpre : ∀ c, ctxOf3 n k p = some c → CtxPre3 decls rank c sc (rank n) := by
    intro c hc
    obtain ⟨hcin, hcst⟩ := hctx c hc
    obtain ⟨hcn, hcsan⟩ := hS.ctxFresh (n, nd) hmemd c hcin
    refine ⟨hcn, hcsan, ctxOf3_ne_nil hc, hw, hk, hcst, ?_⟩
    intro d hd hcd
    have := hS.ctxInj d hd (n, nd) hmemd c hcd hcin
    rw [this, hsn]
    exact fun x => by cases x
  rcases simpleProp3_cases _ p hsimple with ⟨ty, e', e⟩ | ⟨t, e, hmem, hno, hne⟩ | ⟨i, e, hi⟩ | ⟨req, a, e, ha⟩ |
      ⟨ps, req, e, hps⟩
  · rw [hcore] at e
    subst e
    cases e' with
    | false => exact ⟨[], (fun c hc => by cases hc), propStep_prim3 decls rank P hP.prim.toPrim (some n) k ty sc hw⟩
    | true =>
      have hc1 : 1 ≤ rank n := by simpa [propCostOK3, Node.core] using hcost
      exact ⟨[mapCtx n k], (fun c hc => by rw [List.mem_singleton.mp hc]; rfl),
        propStep_enum3 decls rank P hP.enum n k ty sc (rank n) hn (hpre _ rfl) (by omega)⟩
  · rw [hcore] at e
    subst e
    have hc : rank t + 1 ≤ rank n := by simpa [propCostOK3, Node.core] using hcost
    exact ⟨[], (fun c hc => by cases hc), propStep_ref3 decls rank hS P r hP.named (some n) k t sc hw
      (TK3.anti hk hc) hmem hno hne (by omega) (by omega)⟩
  · rw [hcore] at e
    subst e
    have hc : leafCost3 rank i + 1 ≤ rank n := by simpa [propCostOK3, Node.core] using hcost
    exact ⟨[], (fun c hc => by cases hc), propStep_arr3 decls rank P r hP.arr (some n) k i sc (rank n) hi (by omega)
      (by omega) (by omega) hw hk⟩
  · rw [hcore] at e
    subst e
    have hc : leafCost3 rank a + 1 ≤ rank n := by simpa [propCostOK3, Node.core] using hcost
    exact ⟨[mapCtx n k], (fun c hc => by rw [List.mem_singleton.mp hc]; rfl),
      propStep_map3 decls rank P r hP.map n k a req sc (rank n) hn (hpre _ rfl) ha (by omega) (by omega) (by omega)⟩
  · rw [hcore] at e
    subst e
    have hc : 1 ≤ rank n ∧ ∀ kv ∈ ps, innerCost3 rank kv.2 + 1 ≤ rank n := by
      simpa [propCostOK3, Node.core] using hcost
    refine ⟨[n ++ sanClass k], (fun c hc => by rw [List.mem_singleton.mp hc]; rfl),
      propStep_inl3 decls rank P r hP.inl n k ps req sc (rank n) hn hkne (hpre _ rfl) ⟨hps, by omega, ?_⟩ (by omega)⟩
    intro kv hkv
    have := hc.2 kv hkv
    exact ⟨by omega, by omega, by omega⟩

theorem propStep_decl3 (decls : Decls) (rank : Str → Nat) (hS : Simple3 decls rank) (P : PFn) (r : Nat)
    (hP : Spec3 decls rank P r) (n : Str) (nd : Node) (hmemd : (n, nd) ∈ decls) (hRr : rank n ≤ r)
    (k : Str) (p : Node) (sc : PSt) (hkne : k ≠ [])
    (hsimple : simpleProp3 (decls.map (·.1)) p = true) (hcost : propCostOK3 rank (rank n) p = true)
    (hw : WF3 decls rank sc) (hk : TK3 decls rank sc (rank n))
    (hsn : dGet n sc.tr.states = some .inProgress) (hdep : sc.tr.depth + rank n ≤ sc.tr.maxDepth)
    (hctx : ∀ c, ctxOf3 n k p = some c → c ∈ ctxs3 n nd ∧ dGet c sc.tr.states = none) :
    ∃ ex, (∀ c ∈ ex, ctxOf3 n k p = some c) ∧
      PropPost3 decls rank ex sc k p (propStep decls P (some n) true k p sc) := by
  rw [propStep_core decls P hP.core]
  unfold PropPost3
  rw [← nodeKind_core p, ← ctxOf3_core]
  exact propStep_decl3_aux decls rank hS P r hP n nd hmemd hRr k p.core sc (core_core p) hkne
    (by rw [simpleProp3_core]; exact hsimple) (by rw [propCostOK3_core]; exact hcost) hw hk hsn hdep
    (by rw [ctxOf3_core]; exact hctx)

theorem ctxsL3_cons (n k : Str) (p : Node) (rest : List (Str × Node)) :
    ctxsL3 n ((k, p) :: rest) = (match ctxOf3 n k p with | some c => [c] | none => []) ++ ctxsL3 n rest := by
  unfold ctxsL3
  rw [List.filterMap_cons]
  cases ctxOf3 n k p <;> rfl

theorem parseProps_spec3 (decls : Decls) (rank : Str → Nat) (hS : Simple3 decls rank) (P : PFn) (r : Nat)
    (hP : Spec3 decls rank P r) (n : Str) (nd : Node) (hmemd : (n, nd) ∈ decls) (hRr : rank n ≤ r) :
    ∀ (rest done : List (Str × Node)) (acc : List (Str × Nat)) (s0 sc : PSt),
      (∀ kv ∈ rest, kv.1 ≠ [] ∧ simpleProp3 (decls.map (·.1)) kv.2 = true ∧
          propCostOK3 rank (rank n) kv.2 = true) →
      (∀ c ∈ ctxsL3 n rest, c ∈ ctxs3 n nd) → (ctxsL3 n rest).Nodup →
      ((done ++ rest).map (·.1)).Nodup →
      Step s0 sc → Own3 decls (ctxs3 n nd) s0 sc → WF3 decls rank sc → TK3 decls rank sc (rank n) →
      dGet n sc.tr.states = some .inProgress → s0.tr.depth + rank n ≤ s0.tr.maxDepth →
      (∀ c ∈ ctxsL3 n rest, dGet c sc.tr.states = none) →
      All2 (FieldK (decls.map (·.1)) sc) (done.map toK) acc →
      Step s0 (parseProps decls P (some n) true rest acc sc).2 ∧
      Own3 decls (ctxs3 n nd) s0 (parseProps decls P (some n) true rest acc sc).2 ∧
      WF3 decls rank (parseProps decls P (some n) true rest acc sc).2 ∧
      All2 (FieldK (decls.map (·.1)) (parseProps decls P (some n) true rest acc sc).2) ((done ++ rest).map toK)
        (parseProps decls P (some n) true rest acc sc).1 := by
  intro rest
  induction rest with
  | nil =>
    intro done acc s0 sc _ _ _ _ hst hown hw _ _ _ _ hall
    simp only [parseProps, List.append_nil]
    exact ⟨hst, hown, hw, hall⟩
  | cons kv rest ih =>
    intro done acc s0 sc hrest hsub hcnd hnd hst hown hw hk hsn hdep hfree hall
    obtain ⟨k, p⟩ := kv
    obtain ⟨hkne, hsimple, hcost⟩ := hrest (k, p) (List.mem_cons_self ..)
    rw [ctxsL3_cons] at hsub hcnd hfree
    have hkemp : k.isEmpty = false := by
      cases k with
      | nil => exact absurd rfl hkne
      | cons c cs => rfl
    have hnotin : dHas k acc = false := by
      rw [dHas_iff_contains, hall.keysK]
      cases hc : ((done.map toK).map (·.1)).contains k with
      | false => rfl
      | true =>
        have hmem : k ∈ done.map (·.1) := by
          have := List.contains_iff_mem.mp hc
          simpa [toK, List.map_map, Function.comp_def] using this
        simp only [List.map_append, List.map_cons] at hnd
        have := (List.nodup_append.mp hnd).2.2 k hmem k (List.mem_cons_self ..)
        exact absurd rfl this
    simp only [parseProps, hkemp, hnotin, Bool.or_self, Bool.false_eq_true, if_false]
    have hdepc : sc.tr.depth + rank n ≤ sc.tr.maxDepth := by rw [hst.depth, hst.maxDepth]; exact hdep
    have hhead : ∀ c, ctxOf3 n k p = some c →
        c ∈ (match ctxOf3 n k p with | some c => [c] | none => []) ++ ctxsL3 n rest := by
      intro c hc
      rw [hc]
      exact List.mem_append_left _ (List.mem_singleton.mpr rfl)
    obtain ⟨ex, hex, h1, h2, h3, h4⟩ := propStep_decl3 decls rank hS P r hP n nd hmemd hRr k p sc hkne hsimple hcost
      hw hk hsn hdepc (fun c hc => ⟨hsub c (hhead c hc), hfree c (hhead c hc)⟩)
    rw [dSet_of_not_has _ _ _ hnotin]
    have hexin : ∀ c ∈ ex, c ∈ ctxs3 n nd := fun c hc => hsub c (hhead c (hex c hc))
    have hsn' : dGet n (propStep decls P (some n) true k p sc).2.tr.states = some .inProgress := by
      rcases h1.states n with e | ⟨e, _, _⟩
      · rw [e]; exact hsn
      · rw [hsn] at e; cases e
    have hk' : TK3 decls rank (propStep decls P (some n) true k p sc).2 (rank n) := by
      refine TK3.step h1 h2 ?_ hk
      intro d hd c hc hin
      have := hS.ctxInj d hd (n, nd) hmemd c hc (hexin c hin)
      rw [this, hsn']
      exact fun x => by cases x
    have hrestsub : ∀ c ∈ ctxsL3 n rest, c ∈ ctxs3 n nd := fun c hc => hsub c (List.mem_append_right _ hc)
    have hfree' : ∀ c ∈ ctxsL3 n rest, dGet c (propStep decls P (some n) true k p sc).2.tr.states = none := by
      intro c hc
      have h0 := hfree c (List.mem_append_right _ hc)
      have hnotex : c ∉ ex := by
        intro hin
        have he := hex c hin
        rw [he] at hcnd
        have := (List.nodup_append.mp hcnd).2.2 c (List.mem_singleton.mpr rfl) c hc
        exact this rfl
      by_cases hch : dGet c (propStep decls P (some n) true k p sc).2.tr.states = dGet c sc.tr.states
      · rw [hch]; exact h0
      · have := (h2 (n, nd) hmemd c (hrestsub c hc) hnotex hch).1
        rw [hsn] at this
        cases this
    have hall' : All2 (FieldK (decls.map (·.1)) (propStep decls P (some n) true k p sc).2) ((done ++ [(k, p)]).map toK)
        (acc ++ [(k, (propStep decls P (some n) true k p sc).1)]) := by
      rw [List.map_append]
      exact All2.snoc (All2.imp (fun a b hab => FieldK.step h1.hstep.toW a b hab) hall) h4
    have := ih (done ++ [(k, p)]) _ s0 _ (fun kv hkv => hrest kv (List.mem_cons_of_mem _ hkv)) hrestsub
      (List.nodup_append.mp hcnd).2.1
      (by simpa [List.append_assoc] using hnd) (Step.trans hst h1)
      (Own3.trans hst h1 hown (Own3.mono hexin h2)) h3 hk' hsn' hdep hfree' hall'
    simpa [List.append_assoc] using this

/-! ### `allOf`: the members and the merge -/

theorem mem_dedup (xs : List Str) (k : Str) : k ∈ dedup xs ↔ k ∈ xs := by
  unfold dedup
  rw [mem_unionInto]
  simp

/-- the object `id` carries the fields / required names the member node `part` of `m` denotes -/
def PartOK (decls : Decls) (rank : Str → Nat) (m : Str) (s : PSt) (part : Node) (id : Nat) : Prop :=
  id < s.heap.length ∧ ∃ F R, ShapeIs decls rank m part F R ∧
    All2 (FieldK (decls.map (·.1)) s) F (s.get id).props ∧ ∀ k, k ∈ (s.get id).required ↔ k ∈ R

theorem PartOK.step {decls : Decls} {rank : Str → Nat} {m : Str} {s s' : PSt} (h : Step s s') {part : Node} {id : Nat}
    (hp : PartOK decls rank m s part id) : PartOK decls rank m s' part id := by
  obtain ⟨h0, F, R, h1, h2, h3⟩ := hp
  refine ⟨Nat.lt_of_lt_of_le h0 h.heapLen, F, R, h1, ?_, ?_⟩
  · rw [h.heap id h0]
    exact All2.imp (fun a b hab => FieldK.step h.hstep.toW a b hab) h2
  · rw [h.heap id h0]
    exact h3

theorem allOfPart3_cases (names : List Str) (part : Node) (h : allOfPart3 names part = true) :
    (∃ t, part = .ref t ∧ t ∈ names ∧ t.contains '/' = false ∧ t ≠ []) ∨
    (∃ ps req, part = .obj (some ps) req none ∧ innerProps3 names ps = true) := by
  cases part with
  | ref t =>
    have h' : simpleProp names (.ref t) = true := h
    rcases simpleProp_cases names _ h' with ⟨ty', e'⟩ | ⟨t', e', h1, h2, h3⟩
    · cases e'
    · cases e'
      exact Or.inl ⟨t, rfl, h1, h2, h3⟩
  | obj props req ap =>
    cases props with
    | none => simp [allOfPart3] at h
    | some ps =>
      cases ap with
      | some a => simp [allOfPart3] at h
      | none => exact Or.inr ⟨ps, req, rfl, h⟩
  | prim _ _ => simp [allOfPart3] at h
  | arr _ => simp [allOfPart3] at h
  | allOf _ _ _ => simp [allOfPart3] at h
  | oneOf _ => simp [allOfPart3] at h
  | anyOf _ => simp [allOfPart3] at h
  | nullable _ => simp [allOfPart3] at h

theorem parseList_spec3 (decls : Decls) (rank : Str → Nat) (hS : Simple3 decls rank) (P : PFn) (r : Nat)
    (hP : Spec3 decls rank P r) (n : Str) (hRr : rank n ≤ r) :
    ∀ (parts : List Node) (s0 sc : PSt),
      (∀ part ∈ parts, allOfPart3 (decls.map (·.1)) part = true ∧ partCostOK3 rank (rank n) part = true) →
      Step s0 sc → Own3 decls [] s0 sc → WF3 decls rank sc → TK3 decls rank sc (rank n) →
      s0.tr.depth + rank n ≤ s0.tr.maxDepth →
      Step s0 (parseList P true parts sc).2 ∧ Own3 decls [] s0 (parseList P true parts sc).2 ∧
      WF3 decls rank (parseList P true parts sc).2 ∧
      All2 (PartOK decls rank n (parseList P true parts sc).2) parts (parseList P true parts sc).1 := by
  intro parts
  induction parts with
  | nil =>
    intro s0 sc _ hst hown hw _ _
    exact ⟨hst, hown, hw, .nil⟩
  | cons part rest ih =>
    intro s0 sc hparts hst hown hw hk hdep
    obtain ⟨hpart, hcost⟩ := hparts part (List.mem_cons_self ..)
    have hdepc : sc.tr.depth + rank n ≤ sc.tr.maxDepth := by rw [hst.depth, hst.maxDepth]; exact hdep
    -- one member
    have hone : Step sc (P none part true sc).2 ∧ Own3 decls [] sc (P none part true sc).2 ∧
        WF3 decls rank (P none part true sc).2 ∧ PartOK decls rank n (P none part true sc).2 part (P none part true sc).1 := by
      rcases allOfPart3_cases _ part hpart with ⟨t, e, hmem, hno, hne⟩ | ⟨ps, req, e, hps⟩
      · subst e
        have hc : rank t + 2 ≤ rank n := by simpa [partCostOK3] using hcost
        obtain ⟨ndt, hndt⟩ := dGet_of_mem_keys decls t hmem
        obtain ⟨a1, a2, a3, a4⟩ := hP.ref t ndt sc (rank n) hndt hno hne (by omega) (by omega) (by omega) hw hk
        obtain ⟨alt, nd', F, R, b1, b2, _, b4, b5⟩ := (a3.1 t _ a4).imp id (fun f => f hmem)
        rw [hndt] at b1
        cases b1
        exact ⟨a1, a2, a3, alt, F, R, shapeIs_ref decls rank hS.nodup n t ndt F R hndt hno (by omega) b2, b4, b5⟩
      · subst e
        have hc : 1 ≤ rank n ∧ ∀ kv ∈ ps, innerCost3 rank kv.2 + 1 ≤ rank n := by simpa [partCostOK3] using hcost
        obtain ⟨a1, a2, a3, a4, a5, a6⟩ := hP.anonObj ps req sc (rank n) hw hk ⟨hps, by omega, fun kv hkv => by
          have := hc.2 kv hkv
          exact ⟨by omega, by omega, by omega⟩⟩
        refine ⟨a1, a2, a3, a4, ps.map toK, req, shapeIs_obj decls rank n ps req none (innerProps3_inv _ ps hps).2, a5, ?_⟩
        intro k
        rw [a6, mem_dedup]
    obtain ⟨h1, h2, h3, h4⟩ := hone
    simp only [parseList]
    obtain ⟨i1, i2, i3, i4⟩ := ih s0 (P none part true sc).2 (fun p hp => hparts p (List.mem_cons_of_mem _ hp))
      (Step.trans hst h1) (Own3.trans hst h1 hown h2) h3 (TK3.step0 h1 h2 hk) hdep
    refine ⟨i1, i2, i3, .cons ?_ i4⟩
    have hstep2 : Step (P none part true sc).2 (parseList P true rest (P none part true sc).2).2 := by
      have := ih (P none part true sc).2 (P none part true sc).2 (fun p hp => hparts p (List.mem_cons_of_mem _ hp))
        (Step.refl _) (Own3.of_states_eq rfl) h3 (TK3.step0 h1 h2 hk) (by
          rw [h1.depth, h1.maxDepth]; exact hdepc)
      exact this.1
    exact h4.step hstep2

theorem All2.keys_eq {α β : Type} {R : (Str × α) → (Str × β) → Prop} (hkey : ∀ a b, R a b → b.1 = a.1)
    {l : List (Str × α)} {l' : List (Str × β)} (h : All2 R l l') : l'.map (·.1) = l.map (·.1) := by
  induction h with
  | nil => rfl
  | cons hab _ ih => simp [hkey _ _ hab, ih]

theorem mergeKeyed_cons {β : Type} (a : List (Str × β)) (kv : Str × β) (b : List (Str × β)) :
    mergeKeyed a (kv :: b) = mergeKeyed (if dHas kv.1 a then a else a ++ [kv]) b := rfl

theorem mergeKeyed_all2 {α β : Type} {R : (Str × α) → (Str × β) → Prop} (hkey : ∀ a b, R a b → b.1 = a.1)
    {B : List (Str × α)} {B' : List (Str × β)} (hB : All2 R B B') :
    ∀ {A : List (Str × α)} {A' : List (Str × β)}, All2 R A A' → All2 R (mergeKeyed A B) (mergeKeyed A' B') := by
  induction hB with
  | nil => intro A A' hA; exact hA
  | @cons a b l l' hab _ ih =>
    intro A A' hA
    rw [mergeKeyed_cons, mergeKeyed_cons]
    have hd : dHas b.1 A' = dHas a.1 A := by
      rw [dHas_iff_contains, dHas_iff_contains, hA.keys_eq hkey, hkey a b hab]
    rw [hd]
    cases dHas a.1 A with
    | true => exact ih hA
    | false => exact ih (All2.snoc hA hab)

theorem mergeParts_cons (s : PSt) (id : Nat) (rest : List Nat) (mp : List (Str × Nat)) (mr : List Str) :
    mergeParts s (id :: rest) mp mr =
      mergeParts s rest (mergeKeyed mp (s.get id).props) (unionInto mr (s.get id).required) := rfl

theorem mergeParts_spec (names : List Str) (s : PSt) {FRs : List (List (Str × Kind) × List Str)} {comps : List Nat}
    (h : All2 (fun fr id => All2 (FieldK names s) fr.1 (s.get id).props ∧ ∀ k, k ∈ (s.get id).required ↔ k ∈ fr.2)
      FRs comps) :
    ∀ (mp : List (Str × Nat)) (mr : List Str) (F0 : List (Str × Kind)) (R0 : List Str),
      All2 (FieldK names s) F0 mp → (∀ k, k ∈ mr ↔ k ∈ R0) →
      All2 (FieldK names s) (FRs.foldl (fun acc r => mergeKeyed acc r.1) F0) (mergeParts s comps mp mr).1 ∧
      ∀ k, k ∈ (mergeParts s comps mp mr).2 ↔ k ∈ FRs.foldl (fun acc r => unionInto acc r.2) R0 := by
  induction h with
  | nil =>
    intro mp mr F0 R0 h1 h2
    exact ⟨h1, h2⟩
  | @cons fr id l l' hab _ ih =>
    intro mp mr F0 R0 h1 h2
    rw [mergeParts_cons]
    simp only [List.foldl_cons]
    refine ih _ _ _ _ (mergeKeyed_all2 (fun a b hab => hab.1) hab.1 h1) ?_
    intro k
    rw [mem_unionInto, mem_unionInto, h2 k, hab.2 k]

theorem body_allOf_eq (decls : Decls) (P : PFn) (n : Str) (parts : List Node) (req : List Str) (s : PSt)
    (hn : n ≠ []) (hsan : sanClass n = n) :
    body decls P (some n) (.allOf parts [] req) true s =
      finish decls (some n)
        ((parseList P true parts s).2.alloc
          { name := some n, type := some sObject,
            props := (mergeParts (parseList P true parts s).2 (parseList P true parts s).1 [] (dedup req)).1,
            required := (mergeParts (parseList P true parts s).2 (parseList P true parts s).1 [] (dedup req)).2,
            allOf := some (parseList P true parts s).1 }).1
        ((parseList P true parts s).2.alloc
          { name := some n, type := some sObject,
            props := (mergeParts (parseList P true parts s).2 (parseList P true parts s).1 [] (dedup req)).1,
            required := (mergeParts (parseList P true parts s).2 (parseList P true parts s).1 [] (dedup req)).2,
            allOf := some (parseList P true parts s).1 }).2 := by
  have hmk : ∀ fp rq cs, mkIR { name := some n, type := some sObject, props := fp, required := rq, allOf := cs } =
      { name := some n, type := some sObject, props := fp, required := rq, allOf := cs } :=
    fun fp rq cs => mkIR_named n hn hsan _ rfl
  simp [body, Node.core, truthy_of_ne n hn, hsan, hmk, parseOwn]

theorem partOK_extract (decls : Decls) (rank : Str → Nat) (n : Str) (se : PSt) {parts : List Node} {comps : List Nat}
    (h : All2 (PartOK decls rank n se) parts comps) :
    ∃ FRs : List (List (Str × Kind) × List Str), All2 (fun part fr => ShapeIs decls rank n part fr.1 fr.2) parts FRs ∧
      All2 (fun fr id => All2 (FieldK (decls.map (·.1)) se) fr.1 (se.get id).props ∧
        ∀ k, k ∈ (se.get id).required ↔ k ∈ fr.2) FRs comps := by
  induction h with
  | nil => exact ⟨[], .nil, .nil⟩
  | @cons a b l l' hab _ ih =>
    obtain ⟨FRs, i1, i2⟩ := ih
    obtain ⟨_, F, R, b1, b2, b3⟩ := hab
    exact ⟨(F, R) :: FRs, .cons b1 i1, .cons ⟨b2, b3⟩ i2⟩

/-! ### one declared schema -/

theorem simpleNode3_inv (names : List Str) (nd : Node) (h : simpleNode3 names nd = true) :
    (∃ ps req, nd = .obj (some ps) req none ∧
      (∀ kv ∈ ps, kv.1 ≠ [] ∧ simpleProp3 names kv.2 = true) ∧ (ps.map (·.1)).Nodup) ∨
    (∃ i, nd = .arr i ∧ leaf3 names i = true) ∨
    (∃ ty e, nd = .prim ty e) ∨
    (∃ parts req, nd = .allOf parts [] req ∧ ∀ part ∈ parts, allOfPart3 names part = true) := by
  cases nd with
  | obj props req ap =>
    cases props with
    | none => simp [simpleNode3] at h
    | some ps =>
      cases ap with
      | some a => simp [simpleNode3] at h
      | none =>
        simp only [simpleNode3, Bool.and_eq_true, List.all_eq_true, decide_eq_true_eq] at h
        refine Or.inl ⟨ps, req, rfl, ?_, h.2⟩
        intro kv hkv
        have := h.1 kv hkv
        simp only [Bool.not_eq_true'] at this
        refine ⟨?_, this.2⟩
        intro e
        rw [e] at this
        simp at this
  | arr i => exact Or.inr (Or.inl ⟨i, rfl, h⟩)
  | prim ty e => exact Or.inr (Or.inr (Or.inl ⟨ty, e, rfl⟩))
  | ref _ => simp [simpleNode3] at h
  | allOf parts props req =>
    cases props with
    | nil =>
      simp only [simpleNode3, List.all_eq_true] at h
      exact Or.inr (Or.inr (Or.inr ⟨parts, req, rfl, h⟩))
    | cons _ _ => simp [simpleNode3] at h
  | oneOf _ => simp [simpleNode3] at h
  | anyOf _ => simp [simpleNode3] at h
  | nullable _ => simp [simpleNode3] at h

theorem body_arr_named_eq3 (decls : Decls) (P : PFn) (hC : CoreInv P) (n : Str) (i : Node) (s : PSt) (hn : n ≠ [])
    (hsan : sanClass n = n) (h : leaf3 (decls.map (·.1)) i = true) :
    body decls P (some n) (.arr i) true s =
      finish decls (some n)
        ((P none i.core true s).2.alloc { name := some n, type := some sArray, items := some (P none i.core true s).1 }).1
        ((P none i.core true
            ((P none i.core true s).2.alloc { name := some n, type := some sArray, items := some (P none i.core true s).1 }).2).2.modify
          ((P none i.core true s).2.alloc { name := some n, type := some sArray, items := some (P none i.core true s).1 }).1
          (fun o => { o with items := some (P none i.core true
            ((P none i.core true s).2.alloc { name := some n, type := some sArray, items := some (P none i.core true s).1 }).2).1 })) := by
  have hmk : ∀ x, mkIR { name := some n, type := some sArray, items := some x } =
      { name := some n, type := some sArray, items := some x } :=
    fun x => mkIR_named n hn hsan _ rfl
  simp [body, Node.core, truthy_of_ne n hn, hsan, parseItems_leaf3 _ P hC _ i _ h, hmk]

theorem body_prim_named_eq3 (decls : Decls) (P : PFn) (n : Str) (ty : PrimTy) (e : Bool) (s : PSt) (hn : n ≠ [])
    (hsan : sanClass n = n) :
    body decls P (some n) (.prim ty e) true s =
      finish decls (some n) (s.alloc { name := some n, type := some ty.str, hasEnum := e }).1
        (s.alloc { name := some n, type := some ty.str, hasEnum := e }).2 := by
  have hmk : mkIR { name := some n, type := some ty.str, hasEnum := e } =
      { name := some n, type := some ty.str, hasEnum := e } := mkIR_named n hn hsan _ rfl
  simp [body, Node.core, truthy_of_ne n hn, hsan, hmk]

/-- the common end of the three cases of `parseStep_spec3` -/
theorem spec_finish3 (decls : Decls) (rank : Str → Nat) (hS : Simple3 decls rank) (n : Str) (nd : Node)
    (hmemd : (n, nd) ∈ decls) (s se sa : PSt) (model : IR) (extra : List IR)
    (hstate : dGet n s.tr.states = none) (hk : TK3 decls rank s (rank n + 1))
    (hl1 : Step (afterEnter s n) se) (hown : Own3 decls (ctxs3 n nd) (afterEnter s n) se) (hw : WF3 decls rank se)
    (hah : sa.heap = se.heap ++ model :: extra) (har : sa.reg = se.reg) (hao : sa.oom = se.oom)
    (hat : TrSame se.tr sa.tr) (hname : model.name = some n)
    (hm : ∀ sf, HStep se sf → sf.get se.heap.length = model → ModelOK3 decls rank sf n se.heap.length) :
    ∃ sf, ((finish decls (some n) se.heap.length sa).1,
           ({ ((finish decls (some n) se.heap.length sa).2.doExit (some n)) with
              nest := ((finish decls (some n) se.heap.length sa).2.doExit (some n)).nest - 1 } : PSt))
          = (se.heap.length, sf) ∧ Post3 decls rank s n (se.heap.length, sf) := by
  obtain ⟨hn, hsan⟩ := hS.name (n, nd) hmemd
  have hnmem : n ∈ decls.map (·.1) := List.mem_map.mpr ⟨(n, nd), hmemd, rfl⟩
  have hnstack : n ∉ s.tr.stack := by
    intro hm'
    have := hk.2.1 n hm'
    rw [hstate] at this
    cases this
  have hnreg : s.regHas n = false := by
    rcases hk.2.2.1 n with ⟨_, b⟩ | ⟨x, _⟩ | ⟨x, _⟩
    · exact b
    · rw [hstate] at x; cases x
    · rw [hstate] at x; cases x
  obtain ⟨sf, heq, hst, hhs, hfheap, hfreg, hnone, hfstates, hfget⟩ :=
    named_close decls n s se sa model extra hn hstate hnstack hnreg hk.1 hl1 hah har hao hat hname
      (fun _ _ _ _ => dHas_of_mem decls (n, nd) hmemd)
  refine ⟨sf, heq, hst, ?_, WF3.close hw hhs hfreg hfheap (fun _ => hm sf hhs hfget), by
    show dGet n sf.reg = _; rw [hfreg, dGet_dSet_self]⟩
  refine own_close3 hfstates hown ?_
  intro d hd k hk' _
  refine ⟨fun e => (hS.ctxFresh d hd k hk').1 (e ▸ hnmem), ?_⟩
  intro hin
  have := hS.ctxInj d hd (n, nd) hmemd k hk' hin
  exact ⟨by rw [this]; exact hstate, this⟩

/-- `_parse_schema` on a declared schema of the fragment: `SpecP3` one rank up. -/
theorem parseStep_spec3 (decls : Decls) (rank : Str → Nat) (P : PFn) (r : Nat) (hS : Simple3 decls rank)
    (hP : Spec3 decls rank P r) : SpecP3 decls rank (parseStep decls P) (r + 1) := by
  intro n nd s hget hr hpre
  obtain ⟨hw, hk, hnreg, hdep⟩ := hpre
  have hmem := mem_of_dGet decls n nd hget
  have hnmem : n ∈ decls.map (·.1) := List.mem_map.mpr ⟨(n, nd), hmem, rfl⟩
  obtain ⟨hn, hsan⟩ := hS.name (n, nd) hmem
  have hn : n ≠ [] := hn
  have hsan : sanClass n = n := hsan
  have hstate : dGet n s.tr.states = none := by
    rcases hk.2.2.1 n with ⟨a, _⟩ | ⟨_, b⟩ | ⟨_, b, _⟩
    · exact a
    · rw [hnreg] at b; cases b
    · have := b hnmem; omega
  have he := enter_fresh3 hk hn hstate (by omega)
  have hps := parseStep_named_eq decls P n nd s he
  obtain ⟨h1stack, h1depth, h1max, h1cyc, h1states, h1heap, h1reg, h1oom⟩ := afterEnter_facts s n
  have hk1 : TK3 decls rank (afterEnter s n) (rank n) :=
    TK3.afterEnter hk hstate (Nat.le_succ _) (fun _ => Nat.le_refl _)
      (fun d hd k hk' e => absurd (e ▸ hnmem) (hS.ctxFresh d hd k hk').1)
  have hw1 : WF3 decls rank (afterEnter s n) := WF3.congr h1heap h1reg hw
  have hcosts := hS.cost (n, nd) hmem
  simp only at hcosts
  rcases simpleNode3_inv _ nd (hS.node (n, nd) hmem) with ⟨ps, req, e, hprops, hnodup⟩ | ⟨i, e, hi⟩ | ⟨ty, en, e⟩ |
      ⟨parts, req, e, hparts⟩
  · -- an object
    subst e
    rw [body_obj_eq decls P n ps req _ hn hsan] at hps
    have hcostp : ∀ kv ∈ ps, propCostOK3 rank (rank n) kv.2 = true := by
      simpa [nodeCostOK3] using hcosts
    have hfree : ∀ c ∈ ctxsL3 n ps, dGet c (afterEnter s n).tr.states = none := by
      intro c hc
      have hcn : c ≠ n := fun e => (hS.ctxFresh (n, _) hmem c hc).1 (by rw [e]; exact hnmem)
      rw [h1states, dGet_dSet_ne _ _ _ _ hcn]
      cases hcs : dGet c s.tr.states with
      | none => rfl
      | some v =>
        have := hk.2.2.2 (n, _) hmem c hc (by rw [hcs]; exact fun x => by cases x)
        exact absurd hstate this
    obtain ⟨hl1, hl2, hl3, hl4⟩ := parseProps_spec3 decls rank hS P r hP n _ hmem (by omega) ps [] []
      (afterEnter s n) (afterEnter s n) (fun kv hkv => ⟨(hprops kv hkv).1, (hprops kv hkv).2, hcostp kv hkv⟩)
      (fun c hc => hc) (hS.ctxNodup (n, _) hmem) (by simpa using hnodup) (Step.refl _) (Own3.of_states_eq rfl) hw1 hk1
      (by rw [h1states, dGet_dSet_self]) (by rw [h1depth, h1max]; omega) hfree .nil
    generalize hq : parseProps decls P (some n) true ps [] (afterEnter s n) = q at hl1 hl2 hl3 hl4 hps
    obtain ⟨fp, se⟩ := q
    simp only [List.nil_append] at hl1 hl2 hl3 hl4 hps
    obtain ⟨sf, heq, hpost⟩ := spec_finish3 decls rank hS n _ hmem s se
      (se.alloc { name := some n, type := some sObject, props := fp, required := dedup req }).2
      { name := some n, type := some sObject, props := fp, required := dedup req } [] hstate hk hl1 hl2 hl3 rfl rfl rfl
      (TrSame.rfl' _) rfl (by
        intro sf hhs hfget
        refine ⟨_, ps.map toK, req, hget, shapeIs_obj decls rank n ps req none hnodup, by rw [hfget]; rfl, ?_, ?_⟩
        · rw [hfget]
          exact All2.imp (fun a b hab => FieldK.step hhs.toW a b hab) hl4
        · intro k
          rw [hfget]
          exact mem_dedup req k)
    have hps' : parseStep decls P (some n) (.obj (some ps) req none) true s = (se.heap.length, sf) := by
      rw [hps]; exact heq
    rw [hps']
    exact hpost
  · -- an array of a leaf
    subst e
    rw [body_arr_named_eq3 decls P hP.core n i _ hn hsan hi] at hps
    have hmodel : ∀ (sf se : PSt) (x : Nat), HStep se sf →
        sf.get se.heap.length = { name := some n, type := some sArray, items := some x } →
        ModelOK3 decls rank sf n se.heap.length := by
      intro sf se x _ hfget
      exact ⟨_, [], [], hget, shapeIs_arr decls rank n i, by rw [hfget]; rfl, by rw [hfget]; exact .nil,
        by rw [hfget]; simp⟩
    have hcosts : leafCost rank i.core ≤ rank n := by
      have h' := hcosts
      simp only [nodeCostOK3, leafCost3] at h'
      exact of_decide_eq_true h'
    have hi' : leafOK (decls.map (·.1)) i.core = true := hi
    generalize i.core = ic at hps hcosts hi'
    rcases leafOK_cases _ ic hi' with ⟨ty, en, e⟩ | ⟨t, e, hmemt, hno, hne⟩
    · subst e
      obtain ⟨a1, a2, a3, a4, a5⟩ := hP.prim ty en (afterEnter s n)
      generalize P none (.prim ty en) true (afterEnter s n) = qa at a1 a2 a3 a4 a5 hps
      obtain ⟨qai, se⟩ := qa
      simp only at a1 a2 a3 a4 a5 hps
      subst a1
      have hsel : se.heap.length = (afterEnter s n).heap.length + 1 := by rw [a2]; simp
      generalize hal : se.alloc { name := some n, type := some sArray, items := some (afterEnter s n).heap.length } = al
        at hps
      have hal1 : al.1 = se.heap.length := by rw [← hal]; rfl
      have hal2 : al.2.heap = se.heap ++ [{ name := some n, type := some sArray, items := some (afterEnter s n).heap.length }] := by
        rw [← hal]; rfl
      have halr : al.2.reg = se.reg := by rw [← hal]; rfl
      have halo : al.2.oom = se.oom := by rw [← hal]; rfl
      have halt : al.2.tr = se.tr := by rw [← hal]; rfl
      obtain ⟨c1, c2, c3, c4, c5⟩ := hP.prim ty en al.2
      generalize P none (.prim ty en) true al.2 = qc at c1 c2 c3 c4 c5 hps
      obtain ⟨qci, qcs⟩ := qc
      simp only at c1 c2 c3 c4 c5 hps
      subst c1
      have hlen : al.2.heap.length = se.heap.length + 1 := by rw [hal2]; simp
      rw [hal1] at hps
      generalize hsa : qcs.modify se.heap.length (fun o => { o with items := some al.2.heap.length }) = sa at hps
      have hsah : sa.heap = se.heap ++ ({ name := some n, type := some sArray, items := some (se.heap.length + 1) } : IR) :: [{ type := some ty.str, hasEnum := en }] := by
        rw [← hsa]
        show qcs.heap.modify se.heap.length _ = _
        rw [c2, hlen, hal2, List.append_assoc]
        have := modify_append_add se.heap ([{ name := some n, type := some sArray, items := some (afterEnter s n).heap.length }] ++ [({ type := some ty.str, hasEnum := en } : IR)]) 0
          (fun o => { o with items := some (se.heap.length + 1) })
        simpa using this
      have hst1 : Step (afterEnter s n) se := step_of_ext _ a2 a3 a4 a5
      obtain ⟨sf, heq, hpost⟩ := spec_finish3 decls rank hS n _ hmem s se sa _ _ hstate hk hst1
        (Own3.of_states_eq a5.2.2.2.2) (WF3.step (hstep_of_ext _ a2 a3).toW a3 hw1) hsah
        (by rw [← hsa]; show qcs.reg = _; rw [c3, halr])
        (by rw [← hsa]; show qcs.oom = _; rw [c4, halo])
        (by rw [← hsa, ← halt]; exact c5) rfl
        (fun sf hhs hfget => hmodel sf se _ hhs hfget)
      have hps' : parseStep decls P (some n) (.arr i) true s = (se.heap.length, sf) := by
        rw [hps]; exact heq
      rw [hps']
      exact hpost
    · subst e
      obtain ⟨ndt, hndt⟩ := dGet_of_mem_keys decls t hmemt
      have hc : rank t + 2 ≤ rank n := hcosts
      obtain ⟨a1, a2, a3, a4⟩ := hP.ref t ndt (afterEnter s n) (rank n) hndt hno hne (by omega) (by omega)
        (by rw [h1depth, h1max]; omega) hw1 hk1
      generalize P none (.ref t) true (afterEnter s n) = qa at a1 a2 a3 a4 hps
      obtain ⟨rid, se⟩ := qa
      simp only at a1 a2 a3 a4 hps
      have hridlt : rid < se.heap.length := wf3_reg_lt a3 t rid a4
      generalize hal : se.alloc { name := some n, type := some sArray, items := some rid } = al at hps
      have hal1 : al.1 = se.heap.length := by rw [← hal]; rfl
      have hal2 : al.2.heap = se.heap ++ [{ name := some n, type := some sArray, items := some rid }] := by
        rw [← hal]; rfl
      have halr : al.2.reg = se.reg := by rw [← hal]; rfl
      have halo : al.2.oom = se.oom := by rw [← hal]; rfl
      have halt : al.2.tr = se.tr := by rw [← hal]; rfl
      have hdm : (al.2.get rid).depthMarker = false := by
        have : al.2.get rid = se.get rid := by
          unfold PSt.get; rw [hal2]; exact getD_append_left _ _ _ hridlt
        rw [this]
        obtain ⟨_, _, _, _, _, hfull, _⟩ := (a3.1 t rid a4).2 hmemt
        exact (kind_full_flags hfull).1
      obtain ⟨c1, c2, c3, c4, c5⟩ := hP.hit t al.2 rid hno hne (by rw [halr]; exact a4) hdm
      generalize P none (.ref t) true al.2 = qc at c1 c2 c3 c4 c5 hps
      obtain ⟨qci, qcs⟩ := qc
      simp only at c1 c2 c3 c4 c5 hps
      subst c1
      rw [hal1] at hps
      generalize hsa : qcs.modify se.heap.length (fun o => { o with items := some qci }) = sa at hps
      have hsah : sa.heap = se.heap ++ ({ name := some n, type := some sArray, items := some qci } : IR) :: [] := by
        rw [← hsa]
        show qcs.heap.modify se.heap.length _ = _
        rw [c2, hal2, modify_append_length]
      obtain ⟨sf, heq, hpost⟩ := spec_finish3 decls rank hS n _ hmem s se sa _ _ hstate hk a1
        (Own3.mono (fun c hc => by cases hc) a2) a3 hsah
        (by rw [← hsa]; show qcs.reg = _; rw [c3, halr])
        (by rw [← hsa]; show qcs.oom = _; rw [c4, halo])
        (by rw [← hsa, ← halt]; exact c5) rfl
        (fun sf hhs hfget => hmodel sf se _ hhs hfget)
      have hps' : parseStep decls P (some n) (.arr i) true s = (se.heap.length, sf) := by
        rw [hps]; exact heq
      rw [hps']
      exact hpost
  · -- a primitive alias / an enum
    subst e
    rw [body_prim_named_eq3 decls P n ty en _ hn hsan] at hps
    obtain ⟨sf, heq, hpost⟩ := spec_finish3 decls rank hS n _ hmem s (afterEnter s n)
      ((afterEnter s n).alloc { name := some n, type := some ty.str, hasEnum := en }).2
      { name := some n, type := some ty.str, hasEnum := en } []
      hstate hk (Step.refl _) (Own3.of_states_eq rfl) hw1 rfl rfl rfl (TrSame.rfl' _) rfl (by
        intro sf _ hfget
        exact ⟨_, [], [], hget, shapeIs_prim decls rank n ty en, by rw [hfget]; rfl, by rw [hfget]; exact .nil,
          by rw [hfget]; simp⟩)
    have hps' : parseStep decls P (some n) (.prim ty en) true s = ((afterEnter s n).heap.length, sf) := by
      rw [hps]; exact heq
    rw [hps']
    exact hpost
  · -- an `allOf` child
    subst e
    rw [body_allOf_eq decls P n parts req _ hn hsan] at hps
    have hcostp : ∀ part ∈ parts, partCostOK3 rank (rank n) part = true := by
      simpa [nodeCostOK3] using hcosts
    obtain ⟨hl1, hl2, hl3, hl4⟩ := parseList_spec3 decls rank hS P r hP n (by omega) parts
      (afterEnter s n) (afterEnter s n) (fun p hp => ⟨hparts p hp, hcostp p hp⟩) (Step.refl _) (Own3.of_states_eq rfl)
      hw1 hk1 (by rw [h1depth, h1max]; omega)
    generalize hq : parseList P true parts (afterEnter s n) = q at hl1 hl2 hl3 hl4 hps
    obtain ⟨comps, se⟩ := q
    simp only at hl1 hl2 hl3 hl4 hps
    -- the shapes of the members
    have hFR := partOK_extract decls rank n se hl4
    obtain ⟨FRs, hshapes, hobjs⟩ := hFR
    obtain ⟨hm1, hm2⟩ := mergeParts_spec (decls.map (·.1)) se hobjs [] (dedup req) [] (dedup req) .nil (fun _ => Iff.rfl)
    generalize hmp : mergeParts se comps [] (dedup req) = mm at hm1 hm2 hps
    obtain ⟨mp, mr⟩ := mm
    simp only at hm1 hm2 hps
    obtain ⟨sf, heq, hpost⟩ := spec_finish3 decls rank hS n _ hmem s se
      (se.alloc { name := some n, type := some sObject, props := mp, required := mr, allOf := some comps }).2
      { name := some n, type := some sObject, props := mp, required := mr, allOf := some comps } [] hstate hk hl1
      (Own3.mono (fun c hc => by cases hc) hl2) hl3 rfl rfl rfl
      (TrSame.rfl' _) rfl (by
        intro sf hhs hfget
        refine ⟨_, mergedF FRs, mergedR req FRs, hget, shapeIs_allOf decls rank n parts req FRs hshapes,
          by rw [hfget]; rfl, ?_, ?_⟩
        · rw [hfget]
          exact All2.imp (fun a b hab => FieldK.step hhs.toW a b hab) hm1
        · intro k
          rw [hfget]
          exact hm2 k)
    have hps' : parseStep decls P (some n) (.allOf parts [] req) true s = (se.heap.length, sf) := by
      rw [hps]; exact heq
    rw [hps']
    exact hpost

/-! ### induction on the fuel -/

theorem parse_spec3 (decls : Decls) (rank : Str → Nat) (hS : Simple3 decls rank) (f : Nat) :
    Spec3 decls rank (parse decls (f + 1)) f := by
  induction f with
  | zero =>
    refine ⟨parse_coreInv decls 1, parseStep_primSpecE decls _, parseStep_refHit decls _, ?_, ?_, ?_, ?_,
      parseStep_enumSpec3 decls rank _, ?_, ?_⟩
    · intro n nd s _ hr
      exact absurd hr (Nat.not_lt_zero _)
    · intro t nd s R _ _ _ hr
      exact absurd hr (Nat.not_lt_zero _)
    · intro i s R _ hr
      exact absurd hr (Nat.not_lt_zero _)
    · intro c a req s R _ _ hr
      exact absurd hr (Nat.not_lt_zero _)
    · intro c ps req s R _ hin
      exact absurd hin.2.1 (Nat.lt_irrefl _)
    · intro ps req s R _ _ hin
      exact absurd hin.2.1 (Nat.lt_irrefl _)
  | succ f ih =>
    exact ⟨parse_coreInv decls _, parseStep_primSpecE decls _, parseStep_refHit decls _,
      parseStep_spec3 decls rank _ f hS ih,
      parseStep_refSpec3 decls rank _ f ih.named,
      parseStep_arrSpec3 decls rank _ f hS ih.core ih.prim ih.hit ih.ref,
      parseStep_mapSpec3 decls rank _ f ih.core ih.prim ih.ref,
      parseStep_enumSpec3 decls rank _,
      parseStep_inlSpec3 decls rank hS _ f ih.core ih.prim.toPrim ih.named ih.arr,
      parseStep_anonObjSpec3 decls rank hS _ f ih.core ih.prim.toPrim ih.named ih.arr⟩

/-! ### the top-level loop -/

/-- tracker at rest, coherent with the registry -/
def TKtop3 (decls : Decls) (rank : Str → Nat) (s : PSt) : Prop :=
  ∀ R, TK3 decls rank s R

theorem TKtop3.step {decls : Decls} {rank : Str → Nat} {s s' : PSt} (h : TKtop3 decls rank s) (hs : Step s s')
    (ho : Own3 decls [] s s') : TKtop3 decls rank s' :=
  fun R => TK3.step hs ho (fun _ _ _ _ hin => by cases hin) (h R)

theorem buildLoop_spec3 (decls : Decls) (rank : Str → Nat) (hS : Simple3 decls rank) (F : Nat)
    (hF : ∀ d ∈ decls, rank d.1 < F) (ds : List (Str × Node)) :
    ∀ s : PSt, (∀ d ∈ ds, d ∈ decls) → WF3 decls rank s → TKtop3 decls rank s → s.tr.depth = 0 →
      (∀ d ∈ decls, rank d.1 + 1 ≤ s.tr.maxDepth) →
      Step s (buildLoop decls (F + 1) ds s) ∧ WF3 decls rank (buildLoop decls (F + 1) ds s) ∧
      TKtop3 decls rank (buildLoop decls (F + 1) ds s) ∧
      ∀ d ∈ ds, (buildLoop decls (F + 1) ds s).regHas d.1 = true := by
  induction ds with
  | nil =>
    intro s _ hw hk _ _
    exact ⟨Step.refl s, hw, hk, fun d hd => by cases hd⟩
  | cons d rest ih =>
    intro s hsub hw hk hd0 hmd
    obtain ⟨n, nd⟩ := d
    have hmem : (n, nd) ∈ decls := hsub _ (List.mem_cons_self ..)
    obtain ⟨hn, hsan⟩ := hS.name (n, nd) hmem
    have hsan' : sanClass n = n := hsan
    have hrest : ∀ d ∈ rest, d ∈ decls := fun d hd => hsub d (List.mem_cons_of_mem _ hd)
    simp only [buildLoop, hsan', Bool.and_self]
    split
    · rename_i hcond
      have hnreg : s.regHas n = false := by
        cases h : s.regHas n with
        | false => rfl
        | true => simp [h] at hcond
      have hget : dGet n decls = some nd := dGet_of_mem_nodup decls hS.nodup n nd hmem
      have hpre : Pre3 decls rank s n :=
        ⟨hw, hk _, hnreg, by have := hmd (n, nd) hmem; simp only at this; omega⟩
      obtain ⟨h1, h1o, h2, h3⟩ := (parse_spec3 decls rank hS F).named n nd s hget (hF (n, nd) hmem) hpre
      have hk1 := hk.step h1 h1o
      obtain ⟨i1, i2, i3, i4⟩ := ih _ hrest h2 hk1 (by rw [h1.depth]; exact hd0)
        (by rw [h1.maxDepth]; exact hmd)
      refine ⟨Step.trans h1 i1, i2, i3, ?_⟩
      intro d hd
      rcases List.mem_cons.mp hd with e | e
      · subst e
        exact i1.regMono _ ((regHas_iff_dGet _ _).mpr ⟨_, h3⟩)
      · exact i4 d e
    · rename_i hcond
      obtain ⟨i1, i2, i3, i4⟩ := ih s hrest hw hk hd0 hmd
      refine ⟨i1, i2, i3, ?_⟩
      intro d hd
      rcases List.mem_cons.mp hd with e | e
      · subst e
        have : s.regHas n = true := by
          cases h : s.regHas n with
          | true => rfl
          | false => simp [h] at hcond
        exact i1.regMono _ this
      · exact i4 d e
