import Pog.Model.Basic
import Pog.Model.Names
import Pog.Model.Fresh
import Pog.Props.C20
import Pog.Props.C01
