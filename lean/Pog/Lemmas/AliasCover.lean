import Pog.Lemmas.Registry
import Pog.Model.AliasCover
/-
  Lemmas: which exception aliases are raised vs generated.
-/
namespace Pog.AliasCover
open Pog Pog.Reg

theorem digitsToNat_natStr (n : Nat) : digitsToNat (natStr n) = n := by
  rw [natStr_eq]
  exact Nat.ofDigitChars_ten_toDigits

theorem isDigitStr_natStr (n : Nat) : isDigitStr (natStr n) = true := by
  unfold isDigitStr
  have h1 := natStr_ne_nil n
  have h2 := natStr_digits n
  cases h : natStr n with
  | nil => exact absurd h h1
  | cons c cs =>
    rw [h] at h2
    simp only [List.isEmpty_cons, Bool.not_false, Bool.true_and, List.all_eq_true]
    exact h2

/-- The number-level reading of the handler loop: a declared numeric code is raised through an alias iff its decimal
    text does not start with `2` and it is an error code. -/
theorem mem_raisedCodes (c : Nat) (declared : List Nat) :
    c ∈ raisedCodes declared ↔ c ∈ declared ∧ startsWith (natStr c) ['2'] = false ∧ isErrorCode c = true := by
  unfold raisedCodes handlerRaises
  simp only [List.mem_map, List.mem_filter, Bool.and_eq_true, Bool.not_eq_true']
  constructor
  · rintro ⟨s, ⟨⟨n, hn, rfl⟩, ⟨_, hs⟩, he⟩, rfl⟩
    rw [digitsToNat_natStr] at he ⊢
    exact ⟨hn, hs, he⟩
  · rintro ⟨hc, hs, he⟩
    exact ⟨natStr c, ⟨⟨c, hc, rfl⟩, ⟨isDigitStr_natStr c, hs⟩, by rw [digitsToNat_natStr]; exact he⟩, digitsToNat_natStr c⟩

theorem mem_generatedCodes (c : Nat) (allDeclared : List Nat) :
    c ∈ generatedCodes allDeclared ↔ c ∈ allDeclared ∧ isErrorCode c = true := by
  unfold generatedCodes
  rw [genFor_specCodes, mem_specCodes]

/-- a code in `[400, 600)` never starts with the digit `2` -/
theorem error_code_not_2xx_text (c : Nat) (h : isErrorCode c = true) : startsWith (natStr c) ['2'] = false := by
  have hb := (isErrorCode_iff c).mp h
  obtain ⟨_, _, _, _, h5, h6⟩ := bounds_gen
  rw [h5, h6] at hb
  have : ∀ k, k < 200 → startsWith (natStr (400 + k)) ['2'] = false := by decide +kernel
  have := this (c - 400) (by omega)
  rwa [show 400 + (c - 400) = c by omega] at this

end Pog.AliasCover
