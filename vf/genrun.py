"""Run the real generator in THIS (fresh) interpreter: python -m vf.genrun JOB.json
job: {"spec": path, "root": dir, "package", "core", "strategy", "force", "warm": optional spec path generated first into root+"-warm"}
prints {"ok", "error", "tree": {relpath: sha256}}"""
from __future__ import annotations

import json
import sys
from pathlib import Path

from . import common, e2e


def main():
    job = json.loads(open(sys.argv[1]).read())
    common.scratch()
    common.use_repo_src()
    if job.get("warm"):
        e2e.generate(None, Path(job["root"] + "-warm"), package="warm.pkg", spec_path=Path(job["warm"]))
    if job.get("warm_same_path"):
        # an UNRELATED document was generated earlier in this process from the very path the real document is now stored under
        import shutil
        real = Path(job["spec"]).read_bytes()
        shutil.copyfile(job["warm_same_path"], job["spec"])
        e2e.generate(None, Path(job["root"] + "-warm2"), package=job["package"], core=job.get("core"), spec_path=Path(job["spec"]))
        Path(job["spec"]).write_bytes(real)
    g = e2e.generate(None, Path(job["root"]), package=job["package"], core=job.get("core"), strategy=job.get("strategy", "operationId"),
                     force=job.get("force", True), spec_path=Path(job["spec"]))
    top = job["package"].split(".")[0]
    tree = {}
    for t in {top, (job.get("core") or job["package"]).split(".")[0]}:
        tree.update({f"{t}/{k}": v for k, v in e2e.tree_hashes(Path(job["root"]) / t).items()})
    out = {"ok": g["ok"], "error": g["error"], "tree": tree}
    if job.get("rerun") and g["ok"]:
        # generate ; generate(force=False): must succeed and leave every file untouched
        import os
        before = {str(f): (f.stat().st_mtime_ns, f.stat().st_size) for f in Path(job["root"]).rglob("*") if f.is_file()}
        g2 = e2e.generate(None, Path(job["root"]), package=job["package"], core=job.get("core"), strategy=job.get("strategy", "operationId"),
                          force=False, spec_path=Path(job["spec"]))
        after = {str(f): (f.stat().st_mtime_ns, f.stat().st_size) for f in Path(job["root"]).rglob("*") if f.is_file()}
        out["rerun"] = {"ok": g2["ok"], "error": g2["error"], "touched": sorted(k for k in set(before) | set(after) if before.get(k) != after.get(k))[:10]}
    sys.stdout.write(json.dumps(out))


if __name__ == "__main__":
    main()
