import Lean.Data.Json
import Pog.Model.Names
import Pog.Model.Fresh
/-
  Line protocol: one JSON request per line on stdin, one JSON reply per line on stdout.
    request  {"f": <function>, "a": [<args>], "u": {<codepoint>: {"w":bool,"d":bool,"l":str,"U":str,"iu":bool}}}
    reply    <json value>   |   {"error": "..."}
  Strings are JSON strings (Unicode scalar values only; the harness never sends lone surrogates).
-/
open Lean Pog

def jstr (s : Str) : Json := Json.str (String.ofList s)
def jstrs (xs : List Str) : Json := Json.arr (xs.map jstr).toArray
def jopt (f : α → Json) : Option α → Json
  | some a => f a
  | none => Json.null

def getStr (j : Json) : Except String Str := do
  let s ← j.getStr?
  pure s.toList

def getStrs (j : Json) : Except String (List Str) := do
  let a ← j.getArr?
  a.toList.mapM getStr

def argN (args : Array Json) (i : Nat) : Except String Json :=
  match args[i]? with
  | some j => pure j
  | none => throw s!"missing arg {i}"

/-- Build a `UInfo` from the harness-provided table for the non-ASCII characters of the input. -/
def mkUInfo (j : Option Json) : UInfo :=
  match j with
  | none => UInfo.ascii
  | some tbl =>
    let look (c : Char) : Option Json := (tbl.getObjVal? (toString c.toNat)).toOption
    { word := fun c => match look c with
        | some e => (e.getObjValAs? Bool "w").toOption.getD false
        | none => false
      digit := fun c => match look c with
        | some e => (e.getObjValAs? Bool "d").toOption.getD false
        | none => false
      lower := fun c => match look c with
        | some e => ((e.getObjValAs? String "l").toOption.map String.toList).getD [c]
        | none => [c]
      upper := fun c => match look c with
        | some e => ((e.getObjValAs? String "U").toOption.map String.toList).getD [c]
        | none => [c]
      isupper := fun c => match look c with
        | some e => (e.getObjValAs? Bool "iu").toOption.getD false
        | none => false }

def dispatch (f : String) (a : Array Json) (u : UInfo) : Except String Json := do
  match f with
  | "ping" => pure (Json.str "pong")
  | "tokenize" => pure (jstrs (tokenize (← getStr (← argN a 0))))
  | "sanClass" => pure (jstr (sanClass (← getStr (← argN a 0))))
  | "sanModule" => pure (jstr (sanModule u (← getStr (← argN a 0))))
  | "sanMethod" => pure (jstr (sanMethod (← getStr (← argN a 0))))
  | "normTagKey" => pure (jstr (normTagKey u (← getStr (← argN a 0))))
  | "sanTagAttr" => pure (jstr (sanTagAttr u (← getStr (← argN a 0))))
  | "isValidPyIdentifier" => pure (Json.bool (isValidPyIdentifier (← getStr (← argN a 0))))
  | "cleanOpId" =>
    pure (jstr (cleanOpId (← getStr (← argN a 0)) (← getStr (← argN a 1)) (← getStr (← argN a 2))))
  | "enumMemberStr" => pure (jopt jstr (enumMemberStr u (← getStr (← argN a 0))))
  | "fieldNames" => pure (jopt jstrs (fieldNames (← getStrs (← argN a 0))))
  | "enumMemberNames" => pure (jopt jstrs (enumMemberNames (← getStrs (← argN a 0))))
  | "enumMemberNamesOfValues" => pure (jopt jstrs (enumMembersOfValues u (← getStrs (← argN a 0))))
  | "classNames" => pure (jopt jstrs (classNames (← getStrs (← argN a 0))))
  | "moduleStems" => pure (jopt jstrs (moduleStems u (← getStrs (← argN a 0))))
  | "inlineName" => pure (jopt jstr (inlineName (← getStrs (← argN a 0)) (← getStr (← argN a 1))))
  | "dedupOpIds" => pure (jstrs (dedupOpIds [] (← getStrs (← argN a 0))))
  | "methodNames" => pure (jstrs (methodNames (← getStrs (← argN a 0))))
  | _ => throw s!"unknown function {f}"

def handle (line : String) : Json :=
  match Json.parse line with
  | .error e => Json.mkObj [("error", Json.str s!"parse: {e}")]
  | .ok req =>
    let f := (req.getObjValAs? String "f").toOption.getD ""
    let a := ((req.getObjVal? "a").toOption.bind (fun j => j.getArr?.toOption)).getD #[]
    let u := mkUInfo (req.getObjVal? "u").toOption
    match dispatch f a u with
    | .ok j => j
    | .error e => Json.mkObj [("error", Json.str e)]

partial def loop (inp out : IO.FS.Stream) : IO Unit := do
  let line ← inp.getLine
  if line.isEmpty then return ()
  out.putStrLn (handle line).compress
  loop inp out

def main : IO Unit := do
  let out ← IO.getStdout
  loop (← IO.getStdin) out
  out.flush
