import Pog.Model.Basic
import Pog.Model.Names
/-
  M-tracker: the unified cycle tracker
  (src/pyopenapi_gen/core/parsing/unified_cycle_detection.py, all of it; the thin wrappers
  `ParsingContext.unified_enter_schema/unified_exit_schema` of core/parsing/context.py only copy
  fields into legacy attributes nobody reads during parsing).

  The model is what the code DOES:
    * `recursion_depth` is incremented on every enter (named or not) and decremented
      saturating at 0 on every exit;
    * the depth test is `recursion_depth > max_depth` AFTER the increment, and comes after the
      COMPLETED / PLACEHOLDER tests;
    * a name is pushed only when the action is CONTINUE_PARSING *and* the name is truthy (`""` is
      never pushed, never popped, never completed);
    * `exit` removes the FIRST occurrence of the name BY VALUE wherever it is in the stack — also
      when the matching `enter` never pushed it (cycle / depth placeholder for a name that is in
      progress further down: the outer entry is removed and, unless the placeholder was stored,
      the outer schema is marked COMPLETED while it is still being parsed);
    * the placeholder storage policy with its substring / prefix heuristics on names.

  `parsed_schemas` is shared with the parser; the tracker only ever *writes* `parsed_schemas[name]`
  (a fresh placeholder), which is reported in `EnterResult.stored`.
-/
namespace Pog.Trk
open Pog

inductive SchemaState
  | notStarted | inProgress | completed | phCycle | phDepth | phSelfRef
  deriving DecidableEq, Repr, Inhabited

inductive CycleAction
  | continueParsing | returnPlaceholder | createPlaceholder | returnExisting
  deriving DecidableEq, Repr, Inhabited

/-- Which `create_*_placeholder` built the placeholder object. -/
inductive PhKind
  | depth | cycle | selfRef
  deriving DecidableEq, Repr, Inhabited

structure CycleInfo where
  name : Str
  path : List Str
  direct : Bool
  depthWhen : Nat
  deriving DecidableEq, Repr

/-- `UnifiedCycleContext` without `parsed_schemas`. -/
structure TrSt where
  stack : List Str := []
  states : List (Str × SchemaState) := []
  depth : Nat := 0
  cycles : List CycleInfo := []
  depthExceeded : List Str := []
  cycleDetected : Bool := false
  maxDepth : Nat := 150
  allowSelf : Bool := false
  deriving DecidableEq, Repr

/-- Python `dict.get` on an association list. -/
def dGet {β : Type} (k : Str) : List (Str × β) → Option β
  | [] => none
  | (k', v) :: rest => if k' = k then some v else dGet k rest

/-- Python `d[k] = v`: replace in place, else append (insertion order kept). -/
def dSet {β : Type} (k : Str) (v : β) : List (Str × β) → List (Str × β)
  | [] => [(k, v)]
  | (k', v') :: rest => if k' = k then (k', v) :: rest else (k', v') :: dSet k v rest

def dHas {β : Type} (k : Str) (d : List (Str × β)) : Bool := (dGet k d).isSome

/-- Python `sub in s` for strings. -/
def hasSub (sub : Str) : Str → Bool
  | [] => sub.isEmpty
  | c :: cs => sub.isPrefixOf (c :: cs) || hasSub sub cs

/-- `schema_states.get(name, NOT_STARTED)` -/
def TrSt.stateOf (s : TrSt) (n : Str) : SchemaState := (dGet n s.states).getD .notStarted

/-- `schema_stack[schema_stack.index(name):]` (the whole stack is never reached: the caller
    checked membership). -/
def dropUntil (n : Str) : List Str → List Str
  | [] => []
  | x :: xs => if x = n then x :: xs else dropUntil n xs

/-- `analyze_cycle`; the `ValueError` fallback is kept. -/
def analyzeCycle (n : Str) (stack : List Str) : CycleInfo :=
  let path := if stack.contains n then dropUntil n stack ++ [n] else [n, n]
  let direct := path.length == 2 && path.head? == path.getLast?
  ⟨n, path, direct, stack.length⟩

def arrow : Str := " -> ".toList
def sItem : Str := "Item".toList
def sProperty : Str := "Property".toList
def sChildren : Str := "Children".toList
def sChildrenItem : Str := "ChildrenItem".toList

/-- `is_synthetic_schema` (truthiness of `schema_name and (...)`). -/
def isSynthetic (n : Str) : Bool := !n.isEmpty && (hasSub sItem n || hasSub sProperty n)

def isDirectArraySelfRef (ci : CycleInfo) : Bool :=
  let p := joinWith arrow ci.path
  hasSub sChildren p && hasSub sChildrenItem p && ci.path.head? == ci.path.getLast?

def isNestedPropertySelfRef (n : Str) (ci : CycleInfo) : Bool :=
  ci.path.any (fun nm => startsWith nm n && nm != n && !endsWith nm sItem)
    && ci.path.head? == ci.path.getLast?

def shouldStore (n : Str) (ci : CycleInfo) : Bool :=
  isSynthetic n || ci.direct || isDirectArraySelfRef ci || isNestedPropertySelfRef n ci

/-- What `unified_enter_schema` hands back to the parser (the parts it branches on) plus the
    write into the shared `parsed_schemas`. -/
structure EnterResult where
  action : CycleAction
  /-- the freshly created placeholder, if any -/
  placeholder : Option PhKind := none
  /-- `context.parsed_schemas[name] = placeholder` was executed -/
  stored : Bool := false
  /-- the cycle path recorded for a cycle placeholder -/
  info : Option CycleInfo := none
  deriving DecidableEq, Repr

/-- `unified_cycle_check` for a non-`None` name (depth already incremented). -/
def check (s : TrSt) (n : Str) : TrSt × EnterResult :=
  match s.stateOf n with
  | .completed => (s, { action := .returnExisting })
  | .phCycle | .phDepth | .phSelfRef => (s, { action := .returnPlaceholder })
  | _ =>
    if s.depth > s.maxDepth then
      ({ s with depthExceeded := if s.depthExceeded.contains n then s.depthExceeded
                                 else s.depthExceeded ++ [n],
                states := dSet n .phDepth s.states,
                cycleDetected := true },
       { action := .createPlaceholder, placeholder := some .depth, stored := true })
    else if s.stack.contains n then
      let ci := analyzeCycle n s.stack
      let selfOk := s.allowSelf && ci.direct
      let s1 : TrSt := { s with cycleDetected := true,
                                cycles := if selfOk then s.cycles else s.cycles ++ [ci] }
      let kind : PhKind := if selfOk then .selfRef else .cycle
      if shouldStore n ci then
        ({ s1 with states := dSet n (if selfOk then .phSelfRef else .phCycle) s1.states },
         { action := .createPlaceholder, placeholder := some kind, stored := true, info := some ci })
      else
        (s1, { action := .createPlaceholder, placeholder := some kind, stored := false,
               info := some ci })
    else
      ({ s with states := dSet n .inProgress s.states }, { action := .continueParsing })

/-- `_parse_schema` sets `allow_self_reference` on the context, then `unified_enter_schema`. -/
def enter (s : TrSt) (name : Option Str) (allow : Bool) : TrSt × EnterResult :=
  let s := { s with allowSelf := allow, depth := s.depth + 1 }
  match name with
  | none => (s, { action := .continueParsing })
  | some n =>
    let (s', r) := check s n
    if r.action = .continueParsing ∧ n ≠ [] then ({ s' with stack := s'.stack ++ [n] }, r)
    else (s', r)

/-- `unified_exit_schema` -/
def exit (s : TrSt) (name : Option Str) : TrSt :=
  let s := { s with depth := s.depth - 1 }
  match name with
  | none => s
  | some n =>
    if n = [] then s else
    let s := { s with stack := s.stack.erase n }
    if dGet n s.states = some .inProgress then { s with states := dSet n .completed s.states }
    else s

/-- `context.unified_cycle_context.schema_states[name] = NOT_STARTED` (schema_parser.py:470). -/
def reset (s : TrSt) (n : Str) : TrSt := { s with states := dSet n .notStarted s.states }

/-! ### Event sequences -/

/-- An event as the parser emits it; an `enter` carries the action the parser SAW. -/
inductive Ev
  | enter (n : Option Str) (allow : Bool) (act : CycleAction)
  | exit (n : Option Str)
  | reset (n : Str)
  deriving DecidableEq, Repr

/-- Apply one event (the recorded action is ignored). -/
def apply (s : TrSt) : Ev → TrSt
  | .enter n a _ => (enter s n a).1
  | .exit n => exit s n
  | .reset n => reset s n

def runEvs (s : TrSt) (w : List Ev) : TrSt := w.foldl apply s

/-- The recorded action of every `enter` is the one the tracker computes when replayed from `s`. -/
def consistentB : TrSt → List Ev → Bool
  | _, [] => true
  | s, e :: w =>
    (match e with
     | .enter n a act => decide ((enter s n a).2.action = act)
     | _ => true) && consistentB (apply s e) w

def Consistent (s : TrSt) (w : List Ev) : Prop := consistentB s w = true

instance (s : TrSt) (w : List Ev) : Decidable (Consistent s w) := by
  unfold Consistent; infer_instance

/-- The rest state of the tracker: nothing in progress, depth zero. -/
def TrSt.AtRest (s : TrSt) : Prop :=
  s.stack = [] ∧ s.depth = 0 ∧ ∀ n, n ≠ [] → dGet n s.states ≠ some .inProgress

/-- A raw request for the driver / the un-annotated interface. -/
inductive Req
  | enter (n : Option Str) (allow : Bool)
  | exit (n : Option Str)
  | reset (n : Str)

structure Obs where
  action : Option CycleAction
  placeholder : Option PhKind
  stored : Bool
  st : TrSt

def runReqs (s : TrSt) : List Req → List Obs
  | [] => []
  | .enter n a :: rest =>
    let (s', r) := enter s n a
    ⟨some r.action, r.placeholder, r.stored, s'⟩ :: runReqs s' rest
  | .exit n :: rest =>
    let s' := exit s n
    ⟨none, none, false, s'⟩ :: runReqs s' rest
  | .reset n :: rest =>
    let s' := reset s n
    ⟨none, none, false, s'⟩ :: runReqs s' rest

end Pog.Trk
