import Pog.Props.C20
/-
  C01 — every accepted spec yields a package that compiles and imports.

  FULL STATEMENT: for every document the generator accepts and every layout/naming strategy, every
  emitted file parses and every emitted module imports with only httpx/cattrs available.

  The generator as a whole is not modelled.  Proved here are the mechanisms the property's anchors
  name; their composition (that every template requests the imports it uses, import order between
  model modules) is only searched by the end-to-end oracle.  Label: partial.
-/
namespace Pog.C01
open Pog

/-- Mechanism (b): class names are pairwise distinct after de-collision, for every list of schema names
    (so no two models are written to one class). -/
theorem decollide_class_names_nodup (names : List Str) :
    ∃ l, classNames names = some l ∧ l.Nodup ∧ l.length = names.length :=
  Pog.C20.class_names_nodup names

/-- Mechanism (b): module stems are pairwise distinct (no two models share a file). -/
theorem decollide_module_stems_nodup (u : UInfo) (names : List Str) :
    ∃ l, moduleStems u names = some l ∧ l.Nodup ∧ l.length = names.length :=
  Pog.C20.module_stems_nodup u names

/-- Every class name is an identifier (a `class <name>:` line always parses). -/
theorem class_name_is_identifier (s : Str) : isPyIdent (sanClass s) = true :=
  Pog.C20.class_name_is_identifier s

end Pog.C01
