import Pog.Model.Names
/-
  M-fresh: the "suffix until unused" loops.

  * dataclass field names      visit/model/dataclass_generator.py:479-507   (`base_2`, `base_3`, …)
  * enum member names          visit/model/enum_generator.py:185-193        (`base_1`, `base_2`, …)
  * class names / module stems emitters/models_emitter.py:349-388           (`Base2`/`Base_`→`Base2`, `stem_2`)
  * inline item / enum names   core/loader/schemas/extractor.py:127-131,288-292 (`Base1`, `Base2`, …)
  * operation ids              emitters/endpoints_emitter.py:111-130        (NOT a loop: counter per
                               sanitised name, the suffixed id is neither re-checked nor recorded)

  A python `while cand in seen: cand = mk(k); k += 1` is a fuelled search; `Pog.Props` proves that
  fuel `|seen| + 1` always suffices (pigeonhole), i.e. that the python loop terminates.
-/
namespace Pog

/-- First `k ≥ start` (trying at most `fuel` candidates) with `mk k ∉ seen`. -/
def findFresh (mk : Nat → Str) (seen : List Str) : Nat → Nat → Option Nat
  | _, 0 => none
  | k, fuel + 1 => if seen.contains (mk k) then findFresh mk seen (k + 1) fuel else some k

/-- `cand = base; k = start; while cand in seen: cand = mk k; k += 1`.
    `none` would mean the python loop does not terminate within `|seen|+1` iterations. -/
def freshName (mk : Nat → Str) (start : Nat) (seen : List Str) (base : Str) : Option Str :=
  if seen.contains base then
    (findFresh mk seen start (seen.length + 1)).map mk
  else some base

def sufUnderscore (base : Str) (k : Nat) : Str := base ++ '_' :: natStr k
def sufPlain (base : Str) (k : Nat) : Str := base ++ natStr k

/-- Assign names left to right; `seen` accumulates the assigned names. -/
def assignAll (mk : Str → Nat → Str) (start : Nat) : List Str → List Str → Option (List Str)
  | _, [] => some []
  | seen, b :: bs =>
    match freshName (mk b) start seen b with
    | none => none
    | some n =>
      match assignAll mk start (n :: seen) bs with
      | none => none
      | some rest => some (n :: rest)

/-- Field identifiers of one dataclass, from the property names in emission order
    (`dataclass_generator.py:479-507`). -/
def fieldNames (props : List Str) : Option (List Str) :=
  assignAll sufUnderscore 2 [] (props.map sanMethod)

/-- Enum member identifiers from the derived base names (`enum_generator.py:185-193`). -/
def enumMemberNames (bases : List Str) : Option (List Str) :=
  assignAll sufUnderscore 1 [] bases

/-- String enum: derive a base member name per value, then de-duplicate. -/
def enumMembersOfValues (u : UInfo) (vals : List Str) : Option (List Str) :=
  (vals.mapM (enumMemberStr u)).bind enumMemberNames

/-- The class-name candidate of `models_emitter.py:366-373`: `Email_` → `Email2`. -/
def classCand (base : Str) (k : Nat) : Str :=
  if endsWith base ['_'] then base.dropLast ++ natStr k else base ++ natStr k

/-- Class names from the schema names in de-collision order (`models_emitter.py:359-375`). -/
def classNames (schemaNames : List Str) : Option (List Str) :=
  assignAll classCand 2 [] (schemaNames.map sanClass)

/-- Module stems (`models_emitter.py:378-388`). -/
def moduleStems (u : UInfo) (schemaNames : List Str) : Option (List Str) :=
  assignAll sufUnderscore 2 [] (schemaNames.map (sanModule u))

/-- Inline item / enum names of the extractor (`extractor.py:127-131, 288-292`), given the names
    already taken. -/
def inlineName (taken : List Str) (base : Str) : Option Str :=
  freshName (sufPlain base) 1 taken base

/-! ### The operation-id "de-duplication" exactly as written (endpoints_emitter.py:111-130) -/

def countOf (seen : List (Str × Nat)) (k : Str) : Option Nat :=
  match seen with
  | [] => none
  | (k', n) :: rest => if k' == k then some n else countOf rest k

def bump (seen : List (Str × Nat)) (k : Str) : List (Str × Nat) :=
  match seen with
  | [] => []
  | (k', n) :: rest => if k' == k then (k', n + 1) :: rest else (k', n) :: bump rest k

/-- Returns the operation ids after the pass. -/
def dedupOpIds : List (Str × Nat) → List Str → List Str
  | _, [] => []
  | seen, id :: rest =>
    let m := sanMethod id
    match countOf seen m with
    | some n => (id ++ '_' :: natStr (n + 1)) :: dedupOpIds (bump seen m) rest
    | none => id :: dedupOpIds (seen ++ [(m, 1)]) rest

/-- Method names the endpoint visitor will emit: sanitised de-duplicated ids. -/
def methodNames (ids : List Str) : List Str := (dedupOpIds [] ids).map sanMethod

end Pog
