import Pog.Model.ConvSer
import Pog.Lemmas.ConvEq
/-
  Lemmas about the serializer model (C16, second half).
-/
namespace Pog

/-! ## `_remove_none_values` leaves no `None`-valued key -/

mutual
theorem PV.removeNone_noNull : ∀ p : PV, (PV.removeNone p).noNullKeys = true
  | .null => rfl
  | .bool _ => rfl
  | .int _ => rfl
  | .str _ => rfl
  | .leak _ => rfl
  | .opaque _ _ => rfl
  | .arr xs => by simp only [PV.removeNone, PV.noNullKeys]; exact PV.removeNoneList_noNull xs
  | .obj kvs => by simp only [PV.removeNone, PV.noNullKeys]; exact PV.removeNoneKvs_noNull kvs
theorem PV.removeNoneList_noNull : ∀ xs : List PV, PV.noNullKeysList (PV.removeNoneList xs) = true
  | [] => rfl
  | x :: xs => by
    simp only [PV.removeNoneList, PV.noNullKeysList, Bool.and_eq_true]
    exact ⟨PV.removeNone_noNull x, PV.removeNoneList_noNull xs⟩
theorem PV.removeNoneKvs_noNull : ∀ kvs : List (Str × PV), PV.noNullKeysKvs (PV.removeNoneKvs kvs) = true
  | [] => rfl
  | (k, v) :: rest => by
    simp only [PV.removeNoneKvs]
    cases hv : v.isNull with
    | true => simp only [if_true]; exact PV.removeNoneKvs_noNull rest
    | false =>
      simp only [Bool.false_eq_true, if_false, PV.noNullKeysKvs, Bool.and_eq_true, Bool.not_eq_true']
      refine ⟨⟨?_, PV.removeNone_noNull v⟩, PV.removeNoneKvs_noNull rest⟩
      cases v <;> simp_all [PV.removeNone, PV.isNull]
end

theorem noNullKeysList_of (ps : List PV) (h : ∀ p ∈ ps, p.noNullKeys = true) : PV.noNullKeysList ps = true := by
  induction ps with
  | nil => rfl
  | cons p ps ih =>
    simp only [PV.noNullKeysList, Bool.and_eq_true]
    exact ⟨h p (by simp), ih (fun q hq => h q (by simp [hq]))⟩

theorem enumPV_noNull (m : JsonV) : (enumPV m).noNullKeys = true := by
  cases m <;> rfl

theorem mapSt_forall {α β : Type} (f : List Str → α → Except UErr (β × List Str)) (P : β → Prop)
    (hf : ∀ reg x y reg', f reg x = .ok (y, reg') → P y) :
    ∀ (xs : List α) (reg : List Str) (ys : List β) (reg' : List Str),
      mapSt f reg xs = .ok (ys, reg') → ∀ y ∈ ys, P y := by
  intro xs
  induction xs with
  | nil =>
    intro reg ys reg' h
    simp only [mapSt, Except.ok.injEq, Prod.mk.injEq] at h
    intro y hy
    rw [← h.1] at hy
    cases hy
  | cons x xs ih =>
    intro reg ys reg' h
    simp only [mapSt] at h
    cases h1 : f reg x with
    | error e => simp [h1] at h
    | ok r =>
      obtain ⟨y, reg1⟩ := r
      simp only [h1] at h
      cases h2 : mapSt f reg1 xs with
      | error e => simp [h2] at h
      | ok r2 =>
        obtain ⟨ys2, reg2⟩ := r2
        simp only [h2, Except.ok.injEq, Prod.mk.injEq] at h
        obtain ⟨rfl, _⟩ := h
        intro y' hy'
        rcases List.mem_cons.mp hy' with e | hm
        · subst e; exact hf reg x _ reg1 h1
        · exact ih reg1 ys2 reg2 h2 y' hm

theorem mapStKvs_noNull {α : Type} (f : List Str → α → Except UErr (PV × List Str))
    (hf : ∀ reg x y reg', f reg x = .ok (y, reg') → y.noNullKeys = true) :
    ∀ (kvs : List (Str × α)) (reg : List Str) (ps : List (Str × PV)) (reg' : List Str),
      mapStKvs f reg kvs = .ok (ps, reg') → PV.noNullKeysKvs ps = true := by
  intro kvs
  induction kvs with
  | nil =>
    intro reg ps reg' h
    simp only [mapStKvs, Except.ok.injEq, Prod.mk.injEq] at h
    rw [← h.1]; rfl
  | cons kv rest ih =>
    obtain ⟨k, x⟩ := kv
    intro reg ps reg' h
    simp only [mapStKvs] at h
    cases h1 : f reg x with
    | error e => simp [h1] at h
    | ok r =>
      obtain ⟨p, reg1⟩ := r
      simp only [h1] at h
      cases h2 : mapStKvs f reg1 rest with
      | error e => simp [h2] at h
      | ok r2 =>
        obtain ⟨ps2, reg2⟩ := r2
        simp only [h2, Except.ok.injEq, Prod.mk.injEq] at h
        obtain ⟨rfl, _⟩ := h
        have hrest := ih reg1 ps2 reg2 h2
        cases hp : p.isNull with
        | true => simpa using hrest
        | false =>
          simp only [Bool.false_eq_true, if_false, PV.noNullKeysKvs, Bool.and_eq_true, Bool.not_eq_true']
          exact ⟨⟨hp, hf reg x p reg1 h1⟩, hrest⟩

/-- Every dict in the value `_serialize_with_tracking` returns is free of `None` values. -/
theorem serF_track_noNull (c : Codecs) : ∀ (n : Nat) (heap : Heap) (decls : Decls) (visited : List Nat)
    (reg : List Str) (v : HVal) (out : PV) (reg' : List Str),
    serF c n heap decls visited reg v = .ok (out, reg') → out.noNullKeys = true := by
  intro n
  induction n with
  | zero => intro heap decls visited reg v out reg' h; simp [serF] at h
  | succ n ih =>
    intro heap decls visited reg v out reg' h
    cases v with
    | none => simp [serF] at h; simp [← h.1, PV.noNullKeys]
    | bool b => simp [serF] at h; simp [← h.1, PV.noNullKeys]
    | int i => simp [serF] at h; simp [← h.1, PV.noNullKeys]
    | str s => simp [serF] at h; simp [← h.1, PV.noNullKeys]
    | bytearray b => simp [serF] at h; simp [← h.1, PV.noNullKeys]
    | enum cls m => simp [serF] at h; rw [← h.1]; exact enumPV_noNull m
    | bytes b =>
      simp only [serF] at h
      split at h
      · cases h
      · cases h; exact PV.removeNone_noNull _
    | datetime b =>
      simp only [serF] at h
      split at h
      · cases h
      · cases h; exact PV.removeNone_noNull _
    | date b =>
      simp only [serF] at h
      split at h
      · cases h
      · cases h; exact PV.removeNone_noNull _
    | time b =>
      simp only [serF] at h
      split at h
      · cases h
      · cases h; exact PV.removeNone_noNull _
    | uuid b =>
      simp only [serF] at h
      split at h
      · cases h
      · cases h; exact PV.removeNone_noNull _
    | «opaque» k b =>
      simp only [serF] at h
      split at h
      · cases h
      · cases h; exact PV.removeNone_noNull _
    | ref id =>
      simp only [serF] at h
      by_cases hv : visited.contains id = true
      · simp only [hv, if_true, Except.ok.injEq, Prod.mk.injEq] at h
        rw [← h.1]; rfl
      · simp only [hv, Bool.false_eq_true, if_false] at h
        cases hg : heap.get id with
        | none => simp [hg] at h
        | some o =>
          cases o with
          | list items =>
            simp only [hg] at h
            generalize hm : mapSt (fun r item => serF c n heap decls (id :: visited) r item) reg items = r at h
            cases r with
            | error e => cases h
            | ok pr =>
              obtain ⟨ps, reg1⟩ := pr
              cases h
              simp only [PV.noNullKeys]
              apply noNullKeysList_of
              exact mapSt_forall _ (fun p => p.noNullKeys = true)
                (fun r x y r' hxy => ih heap decls _ r x y r' hxy) items reg ps _ hm
          | dict kvs =>
            simp only [hg] at h
            generalize hm : mapStKvs (fun r x => serF c n heap decls (id :: visited) r x) reg kvs = r at h
            cases r with
            | error e => cases h
            | ok pr =>
              obtain ⟨ps, reg1⟩ := pr
              cases h
              simp only [PV.noNullKeys]
              exact mapStKvs_noNull _ (fun r x y r' hxy => ih heap decls _ r x y r' hxy) kvs reg ps _ hm
          | inst cls attrs =>
            simp only [hg] at h
            split at h
            · cases h
            · split at h
              · cases h
              · cases h; exact PV.removeNone_noNull _

/-! ## the graphs that used to exhaust every budget (F26, repaired) -/

/-- `class N: name: str; nxt: Optional[N] = None` — the annotation of `nxt` either resolved to the class
    (`resolved = true`) or left as `Optional["N"]`, a forward reference cattrs does not resolve. -/
def NodeDecl (resolved : Bool) : ClassDecl :=
  { fields := [⟨"name".toList, .leaf .str, .required⟩,
               ⟨"nxt".toList, .optional (if resolved then .dc "N".toList else .fwd "N".toList), .none⟩],
    loadMap := none, dumpMap := none }
def nodeDecls (resolved : Bool) : Decls := [("N".toList, NodeDecl resolved)]

/-- `a.nxt = b`, `b.nxt = a`. -/
def cycle2 : Heap :=
  [(0, .inst "N".toList [("name".toList, .str "a".toList), ("nxt".toList, .ref 1)]),
   (1, .inst "N".toList [("name".toList, .str "b".toList), ("nxt".toList, .ref 0)])]

/-- `d = {}; d["x"] = d` -/
def dictSelf : Heap := [(0, .dict [("x".toList, .ref 0)])]

/-- `class A: other: Any = None`, `a.other = a`. -/
def anyDecls : Decls := [("A".toList, { fields := [⟨"other".toList, .any, .none⟩], loadMap := none, dumpMap := none })]
def anySelf : Heap := [(0, .inst "A".toList [("other".toList, .ref 0)])]

end Pog
