"""Shared by C02 / C08 / C19: the parser correspondence + oracle (vf.corr.parser) scoped per property."""
from __future__ import annotations

from .. import findings
from . import _generic as g

CORR = "vf.corr.parser"
ALL = {
    "prefix-name-loses-fields": ("F7", {"C02", "C19"}), "declaration-order-changes-models": ("F7", {"C19", "C02"}), "property-order-changes-models": ("F7", {"C19"}),
    "allof-child-in-parent-inherits-nothing": ("F8", {"C02"}), "allof-fields-differ": ("F8", {"C02"}), "allof-required-lost-in-cycle": ("F8", {"C02"}),
    "depth-placeholder-permanent": ("F9", {"C02", "C08"}),
    "alias-schema-not-parsed": ("F30", {"C08", "C02"}), "alias-target-substituted": ("F30", {"C02"}),
    "inline-prop-named-like-schema": ("F37", {"C02"}), "synthetic-name-shadows-declared-schema": ("F37", {"C02"}), "synthetic-looking-name-loses-fields": ("F37", {"C02"}),
    "nested-pointer-ref-resolved-by-last-segment": ("F66", {"C02"}),
    "synthetic-name-collision": ("F70", {"C02", "C19"}),
    "sanitize-twice-name-not-parsed": ("F50", {"C08"}), "depth-limit-bypassed-recursion-error": ("F51", {"C08"}), "depth-limit-bypassed-recursion-error-unsanitised-name": ("F61", {"C08"}),
    "cycle-placeholder-replaces-schema": ("F52", {"C02"}), "ref-typed-as-unregistered-copy": ("F52", {"C02"}), "unresolved-stub-replaces-schema": ("F52", {"C02"}),
    "field-kind-differs": ("F52", {"C02"}), "fields-differ-other": ("F52", {"C02"}), "required-flag-differs": ("F52", {"C02"}),
}


class Scoped:
    def __init__(self, known, prop):
        self.known, self.prop = known, prop

    def listed(self, fid):
        return fid.startswith("-") or self.known.listed(fid)

    def hit(self, fid, case, what=""):
        return True if fid.startswith("-") else self.known.hit(fid, case, what)


def classes_for(prop: str) -> dict:
    # a class owned by another property is that property's business: ignored here
    return {c: (fid if prop in props else "-" + fid) for c, (fid, props) in ALL.items()}


def run(run, ctx, prop: str, known, quick=1.0, thorough=6.0) -> None:
    g.run_corr(run, ctx, CORR, "Tracker + Parser (event trace, registry, specFields/modelFields vs the real loader at depth limits 3/10/150)", quick=quick, thorough=thorough)
    g.run_oracle(run, ctx, Scoped(known, prop), CORR, "parser invariants / faithfulness / permutation invariance on the real loader", classes_for(prop), quick=quick, thorough=thorough)
    # the third fragment (allOf inheritance, inline objects, enums, nullable): membership decided by the driver (inFragment3), the real
    # loader must be faithful on every accepted document; its oracle runs the same judge over a generator aimed at that fragment
    g.run_corr(run, ctx, "vf.corr.faith3", "Parser on the Simple3 fragment (C02c.inFragment3_sound: accepted documents must load faithfully; trace vs parseSpec)",
               quick=quick * 0.5, thorough=thorough * 0.5)
    g.run_oracle(run, ctx, Scoped(known, prop), "vf.corr.faith3", "faithfulness / permutation invariance on documents aimed at Simple3", classes_for(prop),
                 quick=quick * 0.5, thorough=thorough * 0.5)
    mine = {fid for fid, props in ALL.values() if prop in props}
    g.replay_witnesses(run, known, {fid: CORR for fid in mine})
