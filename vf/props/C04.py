"""C04 — request fidelity: what the caller passes is what goes on the wire.

oracle : generate a client for a structured random document, import it in a fresh interpreter, call every
         operation with random well-typed argument assignments (random subsets of the optional ones) against
         httpx.MockTransport under the generated HttpxTransport, and compare the captured request with the plan.
"""
from __future__ import annotations

import json

from .. import e2e, findings, opsrig
from ..common import Run, rng
from ..gen import spec as gs

PROP = "C04"


def case_fn(case: dict, d):
    root = d / "proj"
    g = e2e.generate(case["doc"], root, package="pkg.client")
    if not g["ok"]:
        return {"gen_ok": False, "gen_error": g["error"]}
    calls = [{"id": i, "module": c["module"], "cls": c["cls"], "method": c["method"], "args": c["args"], "reply": c["reply"],
              "transport": c.get("transport", "bundled"), **({"session": c["session"], "transport_kwargs": c.get("transport_kwargs", {})} if c.get("session") else {})}
             for i, c in enumerate(case["calls"])]
    pr = e2e.probe(root, "pkg.client", None, [{"task": "calls", "calls": calls}])
    return {"gen_ok": True, "probe": pr}


def features(op: dict, path_level: list, plan: dict) -> dict:
    params = list(path_level) + list(op.get("parameters", []))
    rb = (op.get("requestBody") or {}).get("content") or {}
    return {
        "cookie_param_supplied": bool(plan["expect"]["cookies"]),
        "multi_content": len(rb) >= 2,
        "has_query_or_header": any(p.get("in") in ("query", "header") for p in params),
        "nonstr_header_supplied": any(not isinstance(plan["args"].get(opsrig.impl_names().sanitize_method_name(p["name"]), {}).get("v", ""), str)
                                      for p in params if p.get("in") == "header" and opsrig.impl_names().sanitize_method_name(p["name"]) in plan["args"]),
        "array_query_supplied": any((p.get("schema") or {}).get("type") == "array" for p in params if p.get("in") == "query"),
        "optional_body_omitted": plan["expect"].get("body", "x") is None,
    }


def build_cases(ctx, stream: str, n: int) -> list[dict]:
    cases = []
    for i in range(n):
        r = rng(f"C04:{stream}:{i}")
        if stream == "mainstream":
            o = gs.Opts(mainstream=True, always_opid=True, max_ops=5, streaming=False, enum_params=False, formats=("date-time", "date"), array_params=(i % 2 == 0), multi_tags=(i % 3 == 0))
        else:
            o = gs.Opts(mainstream=True, always_opid=True, max_ops=4, cookie_params=True, multi_content=True, array_params=True,
                        enum_params=True, typed_headers=True, formats=("date-time", "date"))
        doc = gs.gen_spec(r, o)
        calls = []
        for path, m, op, pl in opsrig.ops_of(doc):
            for j in range(2):
                plan = opsrig.call_plan(r, doc, path, m, op, pl, supply_optional=[0.6, 1.0][j])
                plan["reply"] = {"status": 200, "headers": {"content-type": "application/json"}, "body_b64": "e30="}
                plan["features"] = features(op, pl, plan)
                plan["op"] = {"path": path, "method": m, "operationId": op["operationId"]}
                for loc in opsrig.locate_all(op):      # every tag client's rendering of a multi-tag operation
                    calls.append({**plan, **loc})
        if i % 2 == 0:
            # all calls of this document go through ONE bundled transport that was built with default headers: what one call put on
            # the wire must not show up in the next (each request is judged on its own arguments)
            r.shuffle(calls)
            for c in calls:
                c["session"] = "s"
                c["transport_kwargs"] = {"default_headers": {"X-Client": "verif", "Accept-Language": "en"}}
                c["expect"] = {**c["expect"], "default_headers": c["transport_kwargs"]["default_headers"]}
        cases.append({"id": f"{stream}-{i}", "stream": stream, "doc": doc, "calls": calls})
    return cases


def attribute(plan: dict, mism: list[str]) -> str | None:
    """The finding a mismatch belongs to.  F11 (cookie parameters never sent), F39 (non-string header values), F62 (optional
    body of several media types cannot be omitted) and F12 (several media types: query / header / cookie arguments dropped,
    optional parameters required) are repaired: no defect class of C04 is expected any more - every mismatch is a violation."""
    return None


def evaluate(run: Run, known, case: dict, res: dict) -> None:
    if "infra_error" in res:
        run.infra_errors.append(res["infra_error"])
        return
    if not res.get("gen_ok"):
        run.dist("generation", "rejected")
        return
    pr = res["probe"]
    if "probe_error" in pr or "fatal" in pr.get("calls", {}) if isinstance(pr.get("calls"), dict) else False:
        run.notes.append(f"probe problem on {case['id']}: {json.dumps(pr)[:300]}")
        run.dist("probe", "error")
        return
    for plan, out in zip(case["calls"], pr["calls"]):
        nontrivial = bool(plan["args"])
        run.count({"doc": case["id"], "op": plan["op"], "args": plan["args"]}, nontrivial=nontrivial)
        run.cov["traces_validated_against_impl"] += 1
        for k, v in plan["features"].items():
            if v:
                run.dist("feature", k)
        run.dist("stream", case["stream"])
        oc = out.get("outcome", {})
        if oc.get("kind") == "arg_error":
            run.dist("probe", "argument could not be constructed (model decode failed; see C03)")
            continue
        mism = opsrig.check_request(plan["expect"], out.get("requests", []))
        if not out.get("requests") and oc.get("kind") == "raised":
            mism = [f"no request was sent: {oc.get('type')}: {oc.get('msg', '')[:200]} {oc.get('tb', '')[-300:]}"]
        if not mism:
            run.sample({"op": plan["op"], "args": plan["args"], "request": out["requests"][0] if out.get("requests") else None}, limit=4)
            continue
        fid = attribute(plan, mism)
        if fid and known.listed(fid):
            known.hit(fid, {"op": plan["op"], "mismatch": mism})
        else:
            if len(run.violations) < 5:
                run.violation("input", {"doc": case["doc"], "calls": [plan]}, observed=mism, expected=plan["expect"],
                              what=f"{plan['op']['method']} {plan['op']['path']} ({plan['op']['operationId']}): " + "; ".join(mism)[:400])


def check(run: Run, ctx) -> None:
    known = findings.Known(run, PROP)
    run.cov["rule"] = ("oracle: random documents (all HTTP methods, path/query/header[/cookie] parameters incl. path-level, JSON/form/multipart/octet "
                       "bodies) -> generated client imported in a fresh interpreter -> each operation called twice (random subset of optionals; all "
                       "optionals) against httpx.MockTransport; captured request compared with the plan. Distinct by (document, operation, arguments); "
                       "non-trivial when at least one argument is passed")
    from . import _generic as g
    g.run_corr(run, ctx, "vf.corr.gencode", "GenCode (buildRequest/handle on generated clients, both transports)", quick=0.4, thorough=3.0)
    g.run_corr(run, ctx, "vf.corr.loader", "Loader (parameter order / count / operation id vs Pog.Loader)", quick=0.25, thorough=2.5)
    g.run_oracle(run, ctx, g.Informational(known), "vf.corr.loader", "loader oracle on the real parse_operations (status = declared key, stream flag, parameter order)",
                 {"LOADER-STREAM-FORMAT-ORDER": "-hazard", "LOADER-PROMO-NAME-COLLISION": "-hazard", "LOADER-POST-NAME-OVERWRITE": "-hazard"}, quick=0.3, thorough=3.0)
    cases = build_cases(ctx, "mainstream", ctx.budget(24, 240)) + build_cases(ctx, "wide", ctx.budget(12, 120))
    results = e2e.run_cases("vf.props.C04:case_fn", cases)
    for case, res in zip(cases, results):
        evaluate(run, known, case, res)
    known.report_unreplayed()


def search(run: Run, ctx) -> None:
    check(run, ctx)


def replay(run: Run, ctx, rec) -> bool:
    case = rec["case"]
    res = e2e.run_cases("vf.props.C04:case_fn", [case], workers=1)[0]
    if not res.get("gen_ok"):
        return False
    for plan, out in zip(case["calls"], res["probe"]["calls"]):
        if opsrig.check_request(plan["expect"], out.get("requests", [])):
            return True
    return False
