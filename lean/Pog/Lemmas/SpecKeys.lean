import Pog.Lemmas.ParserSpec
/-
  The denotation `specFields` has at most ONE field per key: `shape` builds its key list with first-wins merges
  (`mergeKeyed`) and in-place updates (`dSet`) only.  Used by Pog/Props/C02d.lean to turn the set equality of
  `Faithful` into statements "the field with key `k` is required / has kind … iff the document says so".
-/
namespace Pog.Prs
open Pog Pog.Trk

theorem mergeKeyed_keys_nodup {β : Type} (b : List (Str × β)) : ∀ (a : List (Str × β)),
    (a.map (·.1)).Nodup → ((mergeKeyed a b).map (·.1)).Nodup := by
  induction b with
  | nil => intro a h; exact h
  | cons kv rest ih =>
    intro a h
    simp only [mergeKeyed, List.foldl_cons]
    apply ih
    split
    · exact h
    · rename_i hh
      rw [dHas_iff_contains] at hh
      simp only [List.map_append, List.map_cons, List.map_nil]
      rw [List.nodup_append]
      refine ⟨h, by simp, ?_⟩
      intro x hx y hy
      simp only [List.mem_singleton] at hy
      subst hy
      intro e
      subst e
      exact hh (by simpa using hx)

theorem map_fst_dSet_of_has {β : Type} (k : Str) (v : β) (d : List (Str × β)) (h : dHas k d = true) :
    (dSet k v d).map (·.1) = d.map (·.1) := by
  induction d with
  | nil => simp [dHas, dGet] at h
  | cons p rest ih =>
    obtain ⟨k', v'⟩ := p
    by_cases hk : k' = k
    · simp [dSet, hk]
    · have hrest : dHas k rest = true := by simpa [dHas, dGet, hk] using h
      simp [dSet, hk, ih hrest]

theorem dSet_keys_nodup {β : Type} (k : Str) (v : β) (d : List (Str × β)) (h : (d.map (·.1)).Nodup) :
    ((dSet k v d).map (·.1)).Nodup := by
  cases hh : dHas k d with
  | true => rw [map_fst_dSet_of_has k v d hh]; exact h
  | false =>
    rw [map_fst_dSet_of_not_has k v d hh, List.nodup_append]
    refine ⟨h, by simp, ?_⟩
    intro x hx y hy
    simp only [List.mem_singleton] at hy
    subst hy
    intro e
    subst e
    rw [dHas_iff_contains] at hh
    have hc : (d.map (·.1)).contains x = true := List.contains_iff_mem.mpr hx
    rw [hh] at hc
    cases hc

theorem foldl_dSet_keys_nodup {β : Type} (own : List (Str × β)) : ∀ (acc : List (Str × β)),
    (acc.map (·.1)).Nodup → ((own.foldl (fun acc kv => dSet kv.1 kv.2 acc) acc).map (·.1)).Nodup := by
  induction own with
  | nil => intro acc h; exact h
  | cons kv rest ih => intro acc h; exact ih _ (dSet_keys_nodup _ _ _ h)

theorem foldl_mergeKeyed_keys_nodup {β γ : Type} (sub : List (List (Str × β) × γ)) : ∀ (acc : List (Str × β)),
    (acc.map (·.1)).Nodup → ((sub.foldl (fun acc r => mergeKeyed acc r.1) acc).map (·.1)).Nodup := by
  induction sub with
  | nil => intro acc h; exact h
  | cons r rest ih => intro acc h; exact ih _ (mergeKeyed_keys_nodup _ _ h)

/-- the keys of the denotation of a node are pairwise different -/
theorem shape_keys_nodup (decls : Decls) : ∀ (f : Nat) (vis : List Str) (node : Node),
    ((shape decls f vis node).1.map (·.1)).Nodup := by
  intro f
  induction f with
  | zero => intro vis node; exact List.nodup_nil
  | succ f ih =>
    intro vis node
    simp only [shape]
    split
    · split
      · exact List.nodup_nil
      · split
        · exact ih _ _
        · exact List.nodup_nil
    · exact mergeKeyed_keys_nodup _ _ List.nodup_nil
    · exact List.nodup_nil
    · exact foldl_dSet_keys_nodup _ _ (foldl_mergeKeyed_keys_nodup _ _ List.nodup_nil)
    · exact List.nodup_nil

/-- `specFields` has one field per key -/
theorem specFields_keys_nodup (decls : Decls) (n : Str) : ((specFields decls n).map (·.key)).Nodup := by
  unfold specFields
  split
  · exact List.nodup_nil
  · simp only [List.map_map]
    exact shape_keys_nodup decls _ _ _

/-- two fields of a list with pairwise different keys that have the same key are the same field -/
theorem field_eq_of_key_eq {fs : List Field} (hn : (fs.map (·.key)).Nodup) {f g : Field}
    (hf : f ∈ fs) (hg : g ∈ fs) (hk : f.key = g.key) : f = g := by
  induction fs with
  | nil => cases hf
  | cons x rest ih =>
    simp only [List.map_cons, List.nodup_cons, List.mem_map, not_exists, not_and] at hn
    simp only [List.mem_cons] at hf hg
    rcases hf with rfl | hf <;> rcases hg with rfl | hg
    · rfl
    · exact absurd hk.symm (hn.1 g hg)
    · exact absurd hk (hn.1 f hf)
    · exact ih hn.2 hf hg

end Pog.Prs

namespace Pog.Prs
open Pog Pog.Trk

/-! ### what `Faithful` says field by field -/

/-- the registry has a full model for a faithful name -/
theorem Faithful.registered {decls : Decls} {s : PSt} {n : Str} (h : Faithful decls s n) :
    ∃ id fs, s.lookup n = some id ∧ (s.get id).kind = .full ∧ modelFields decls s n = some fs := by
  obtain ⟨fs, h1, h2, _⟩ := h
  cases hl : s.lookup n with
  | none => simp [modelFields, hl] at h1
  | some id => exact ⟨id, fs, rfl, h2 id hl, h1⟩

/-- same keys -/
theorem Faithful.keys {decls : Decls} {s : PSt} {n : Str} (h : Faithful decls s n) :
    ∃ fs, modelFields decls s n = some fs ∧
      ∀ k, k ∈ fs.map (·.key) ↔ k ∈ (specFields decls n).map (·.key) := by
  obtain ⟨fs, h1, _, h3⟩ := h
  refine ⟨fs, h1, fun k => ?_⟩
  simp only [List.mem_map]
  exact ⟨fun ⟨f, hf, e⟩ => ⟨f, (h3 f).mp hf, e⟩, fun ⟨f, hf, e⟩ => ⟨f, (h3 f).mpr hf, e⟩⟩

/-- a model field and a document field with the same key are the same field -/
theorem Faithful.field_eq {decls : Decls} {s : PSt} {n : Str} (h : Faithful decls s n) :
    ∃ fs, modelFields decls s n = some fs ∧
      ∀ f ∈ fs, ∀ g ∈ specFields decls n, f.key = g.key → f = g := by
  obtain ⟨fs, h1, _, h3⟩ := h
  exact ⟨fs, h1, fun f hf g hg hk => field_eq_of_key_eq (specFields_keys_nodup decls n) ((h3 f).mp hf) hg hk⟩

end Pog.Prs
