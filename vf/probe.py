"""Runs inside a FRESH interpreter against one generated project.  Self-contained (imports nothing from vf).

usage: python probe.py JOB.json   ->  prints one JSON document.
The generator package is made unimportable (meta-path blocker + sys.path scrub), so anything the emitted
package needs from it shows up as an ImportError.
"""
from __future__ import annotations

import asyncio
import base64
import dataclasses
import datetime
import enum
import importlib
import inspect
import json
import os
import pkgutil
import sys
import traceback

BLOCK = "pyopenapi_gen"


class _Blocker:
    @staticmethod
    def find_spec(name, path=None, target=None):
        if name == BLOCK or name.startswith(BLOCK + "."):
            raise ImportError(f"blocked: the generator package {name!r} is not available at runtime")
        return None


def setup(job):
    sys.meta_path.insert(0, _Blocker)
    sys.path[:] = [p for p in sys.path if not p.rstrip("/").endswith("/src") and "pyopenapi" not in p]
    for k in [k for k in sys.modules if k == BLOCK or k.startswith(BLOCK + ".")]:
        del sys.modules[k]
    sys.path.insert(0, job["root"])


ALLOWED_THIRD = {"httpx", "httpcore", "h11", "h2", "hpack", "hyperframe", "anyio", "sniffio", "certifi", "idna", "cattrs", "cattr",
                 "attrs", "attr", "typing_extensions", "exceptiongroup", "socksio", "brotli", "brotlicffi", "zstandard", "rich",
                 "click", "pygments", "charset_normalizer", "chardet", "_distutils_hack", "trio", "outcome", "sortedcontainers"}


def err(e: BaseException) -> dict:
    return {"type": type(e).__name__, "msg": str(e)[:400]}


# ------------------------------------------------------------------------------------------------ import_all
def task_import_all(job) -> dict:
    before = set(sys.modules)
    tops = []
    for pkg in (job["package"], job["core"]):
        t = pkg.split(".")[0]
        if t not in tops:
            tops.append(t)
    mods, errors = [], []
    for t in tops:
        try:
            m = importlib.import_module(t)
        except BaseException as e:
            errors.append({"module": t, **err(e)})
            continue
        mods.append(t)

        def onerror(name):
            pass
        for info in pkgutil.walk_packages(m.__path__, prefix=t + ".", onerror=onerror):
            try:
                importlib.import_module(info.name)
                mods.append(info.name)
            except BaseException as e:
                errors.append({"module": info.name, **err(e)})
    unresolved = []
    for name in mods:
        m = sys.modules.get(name)
        allv = getattr(m, "__all__", None)
        if allv is not None:
            for n in allv:
                if not isinstance(n, str) or not hasattr(m, n):
                    unresolved.append({"module": name, "name": repr(n)})
    new_tops = {k.split(".")[0] for k in set(sys.modules) - before}
    std = set(sys.stdlib_module_names)
    foreign = sorted(t for t in new_tops if t not in std and t not in ALLOWED_THIRD and t not in tops and not t.startswith("_"))
    return {"modules": mods, "errors": errors, "unresolved_all": unresolved, "foreign": foreign}


# ------------------------------------------------------------------------------------------------ surface
def sig_of(fn) -> dict:
    try:
        s = inspect.signature(fn)
        params = [{"name": p.name, "kind": p.kind.name, "default": None if p.default is inspect._empty else repr(p.default),
                   "has_default": p.default is not inspect._empty,
                   "ann": None if p.annotation is inspect._empty else (p.annotation if isinstance(p.annotation, str) else repr(p.annotation))}
                  for p in s.parameters.values()]
        ret = None if s.return_annotation is inspect._empty else (s.return_annotation if isinstance(s.return_annotation, str) else repr(s.return_annotation))
    except Exception as e:  # pragma: no cover
        return {"error": str(e)}
    kind = "asyncgen" if inspect.isasyncgenfunction(fn) else "coroutine" if inspect.iscoroutinefunction(fn) else "sync"
    return {"params": params, "ret": ret, "kind": kind}


def public_methods(cls) -> dict:
    out = {}
    for n, v in cls.__dict__.items():
        if n.startswith("_"):
            continue
        if isinstance(v, property):
            continue
        if inspect.isfunction(v):
            out[n] = sig_of(v)
    return out


def task_surface(job) -> dict:
    pkg = job["package"]
    res: dict = {"clients": {}, "protocols": {}, "mocks": {}, "api_client": {}, "mock_api_client": {}, "errors": []}
    try:
        ep = importlib.import_module(pkg + ".endpoints")
        for info in pkgutil.iter_modules(ep.__path__):
            m = importlib.import_module(f"{pkg}.endpoints.{info.name}")
            for n, c in vars(m).items():
                if inspect.isclass(c) and c.__module__ == m.__name__:
                    if n.endswith("ClientProtocol"):
                        res["protocols"][n] = {"module": info.name, "methods": public_methods(c)}
                    elif n.endswith("Client"):
                        res["clients"][n] = {"module": info.name, "methods": public_methods(c),
                                             "bases": [b.__name__ for b in c.__mro__[1:]]}
    except BaseException as e:
        res["errors"].append({"where": "endpoints", **err(e)})
    try:
        mk = importlib.import_module(pkg + ".mocks.endpoints")
        for info in pkgutil.iter_modules(mk.__path__):
            m = importlib.import_module(f"{pkg}.mocks.endpoints.{info.name}")
            for n, c in vars(m).items():
                if inspect.isclass(c) and c.__module__ == m.__name__ and n.startswith("Mock"):
                    res["mocks"][n] = {"module": info.name, "methods": public_methods(c)}
    except BaseException as e:
        res["errors"].append({"where": "mocks", **err(e)})
    try:
        cm = importlib.import_module(pkg + ".client")
        api = cm.APIClient
        res["api_client"] = {n: True for n, v in vars(api).items() if isinstance(v, property)}
        proto = getattr(cm, "APIClientProtocol", None)
        if proto is not None:
            res["api_client_protocol"] = {n: True for n, v in vars(proto).items() if isinstance(v, property)}
        # reachability: APIClient can be constructed and every tag property yields an instance of a tag client class
        reach: dict = {}
        try:
            cfgm = importlib.import_module(job.get("core", pkg + ".core") + ".config")
            inst = api(cfgm.ClientConfig(base_url="http://example.invalid"))
            for n in res["api_client"]:
                try:
                    reach[n] = type(getattr(inst, n)).__name__
                except BaseException as e2:
                    reach[n] = ("ERROR " + type(e2).__name__ + ": " + str(e2))[:200]
        except BaseException as e2:
            reach["<construct>"] = ("ERROR " + type(e2).__name__ + ": " + str(e2))[:240]
        res["api_client_reach"] = reach
    except BaseException as e:
        res["errors"].append({"where": "client", **err(e)})
    try:
        mm = importlib.import_module(pkg + ".mocks.mock_client")
        mapi = mm.MockAPIClient
        res["mock_api_client"] = {n: True for n, v in vars(mapi).items() if isinstance(v, property)}
    except BaseException as e:
        res["errors"].append({"where": "mock_client", **err(e)})
    # behaviour of mocks: every method raises NotImplementedError; protocol conformance
    beh = []
    for mname, minfo in res["mocks"].items():
        try:
            m = importlib.import_module(f"{pkg}.mocks.endpoints.{minfo['module']}")
            inst = getattr(m, mname)()
        except BaseException as e:
            beh.append({"mock": mname, "method": "<init>", "outcome": err(e)})
            continue
        base = mname[len("Mock"):]
        proto = None
        for pn, pinfo in res["protocols"].items():
            if pn == base + "Protocol":
                pm = importlib.import_module(f"{pkg}.endpoints.{pinfo['module']}")
                proto = getattr(pm, pn)
        if proto is not None:
            try:
                beh.append({"mock": mname, "method": "<isinstance Protocol>", "outcome": bool(isinstance(inst, proto))})
            except BaseException as e:
                beh.append({"mock": mname, "method": "<isinstance Protocol>", "outcome": err(e)})
        for meth, sig in minfo["methods"].items():
            fn = getattr(inst, meth)
            kwargs = {p["name"]: None for p in sig.get("params", []) if p["name"] != "self" and not p["has_default"]
                      and p["kind"] in ("POSITIONAL_OR_KEYWORD", "KEYWORD_ONLY")}
            try:
                async def go():
                    r = fn(**kwargs)
                    if inspect.isasyncgen(r):
                        async for _ in r:
                            break
                        return "yielded"
                    if inspect.isawaitable(r):
                        await r
                        return "returned"
                    return "sync-returned"
                out = asyncio.run(go())
            except NotImplementedError:
                out = "NotImplementedError"
            except BaseException as e:
                out = err(e)
            beh.append({"mock": mname, "method": meth, "outcome": out})
    res["mock_behaviour"] = beh
    return res


# ------------------------------------------------------------------------------------------------ models
def task_models(job) -> dict:
    pkg = job["package"]
    out: dict = {"classes": {}, "errors": []}
    try:
        mp = importlib.import_module(pkg + ".models")
    except BaseException as e:
        out["errors"].append(err(e))
        return out
    for info in pkgutil.iter_modules(mp.__path__):
        try:
            m = importlib.import_module(f"{pkg}.models.{info.name}")
        except BaseException as e:
            out["errors"].append({"module": info.name, **err(e)})
            continue
        for n, c in vars(m).items():
            if inspect.isclass(c) and c.__module__ == m.__name__:
                if dataclasses.is_dataclass(c):
                    meta = getattr(c, "Meta", None)
                    load = dict(getattr(meta, "key_transform_with_load", {}) or {})
                    inv = {v: k for k, v in load.items()}
                    fields = []
                    for f in dataclasses.fields(c):
                        required = f.default is dataclasses.MISSING and f.default_factory is dataclasses.MISSING
                        fields.append({"name": f.name, "wire": inv.get(f.name, f.name), "type": f.type if isinstance(f.type, str) else repr(f.type), "required": required})
                    out["classes"][n] = {"kind": "dataclass", "module": info.name, "fields": fields}
                elif issubclass(c, enum.Enum):
                    out["classes"][n] = {"kind": "enum", "module": info.name, "members": [[mm.name, mm.value] for mm in c]}
                else:
                    out["classes"][n] = {"kind": "class", "module": info.name}
            elif not n.startswith("_") and not inspect.ismodule(c) and getattr(c, "__module__", None) in (None, "typing", "types") and n[:1].isupper() and n not in ("Any", "List", "Dict", "Union", "Optional", "TypeAlias", "Annotated", "Literal"):
                out["classes"][n] = {"kind": "alias", "module": info.name, "repr": repr(c)[:200]}
    return out


# ------------------------------------------------------------------------------------------------ roundtrip
def task_roundtrip(job, items) -> list:
    """items: [{"cls": model class name, "json": instance}] -> structure_from_dict then unstructure_to_dict with the package's core."""
    res = []
    try:
        conv = importlib.import_module(job["core"] + ".cattrs_converter")
        models = importlib.import_module(job["package"] + ".models")
    except BaseException as e:
        return [{"fatal": err(e)}]
    for it in items:
        out = {"id": it.get("id")}
        try:
            cls = getattr(models, it["cls"])
            v = conv.structure_from_dict(it["json"], cls)
            out["type"] = type_tag(v)
            if dataclasses.is_dataclass(v):
                out["field_types"] = {f.name: type_tag(getattr(v, f.name)) for f in dataclasses.fields(v)}
            back = conv.unstructure_to_dict(v)
            json.dumps(back)
            out["back"] = back
        except BaseException as e:
            out["error"] = err(e)
        res.append(out)
    return res


# ------------------------------------------------------------------------------------------------ calls
def decode_arg(job, a):
    if not isinstance(a, dict) or "k" not in a:
        return a
    k = a["k"]
    if k == "json":
        return a["v"]
    if k == "bytes":
        return base64.b64decode(a["v"])
    if k == "date":
        return datetime.date.fromisoformat(a["v"])
    if k == "date_list_shared":
        cache = {}
        return [cache.setdefault(x, datetime.date.fromisoformat(x)) for x in a["v"]]   # equal elements are the SAME object
    if k == "datetime":
        return datetime.datetime.fromisoformat(a["v"].replace("Z", "+00:00"))
    if k == "model":
        conv = importlib.import_module(job["core"] + ".cattrs_converter")
        models = importlib.import_module(job["package"] + ".models")
        cls = getattr(models, a["cls"])
        return conv.structure_from_dict(a["v"], cls)
    if k == "model_list":
        conv = importlib.import_module(job["core"] + ".cattrs_converter")
        models = importlib.import_module(job["package"] + ".models")
        cls = getattr(models, a["cls"])
        return [conv.structure_from_dict(x, cls) for x in a["v"]]
    if k == "enum":
        models = importlib.import_module(job["package"] + ".models")
        return getattr(models, a["cls"])(a["v"])
    if k == "files":
        import io
        return {n: io.BytesIO(base64.b64decode(v)) for n, v in a["v"].items()}
    raise ValueError(k)


def reser(job, v):
    """Re-serialise a returned value to JSON with the package's own runtime."""
    if isinstance(v, bytes):
        return {"__bytes__": base64.b64encode(v).decode()}
    utils = importlib.import_module(job["core"] + ".utils")
    try:
        out = utils.DataclassSerializer.serialize(v)
        json.dumps(out)
        return out
    except BaseException as e:
        return {"__unserialisable__": err(e), "repr": repr(v)[:300]}


def type_tag(v) -> str:
    if v is None:
        return "None"
    if dataclasses.is_dataclass(v):
        return "dataclass:" + type(v).__name__
    if isinstance(v, enum.Enum):
        return "enum:" + type(v).__name__
    if isinstance(v, list):
        return "list[" + (type_tag(v[0]) if v else "") + "]"
    return type(v).__name__


def task_calls(job, calls) -> list:
    import httpx

    pkg, core = job["package"], job["core"]
    results = []
    exc_mod = importlib.import_module(core + ".exceptions")
    transport_mod = importlib.import_module(core + ".http_transport")
    sessions: dict = {}
    for call in calls:
        captured = []
        reply = call.get("reply", {"status": 200})

        def handler(request: httpx.Request, reply=reply, captured=captured):
            captured.append(request)
            body = base64.b64decode(reply.get("body_b64", "")) if reply.get("body_b64") else b""
            headers = dict(reply.get("headers", {}))
            if reply.get("chunks_b64") is not None:
                chunks = [base64.b64decode(c) for c in reply["chunks_b64"]]

                class S(httpx.AsyncByteStream):
                    async def __aiter__(self):
                        for c in chunks:
                            yield c
                return httpx.Response(reply["status"], headers=headers, stream=S())
            return httpx.Response(reply["status"], headers=headers, content=body)

        base_url = call.get("base_url", "http://testserver/api")
        mock = httpx.MockTransport(handler)
        sid = call.get("session")
        if call.get("transport", "bundled") == "bundled" and sid is not None and sid in sessions:
            # a later call of a session: the SAME transport object (its default headers, auth and whatever it remembers), a new wire
            tr, old = sessions[sid], None
            tr._client = httpx.AsyncClient(base_url=base_url, transport=mock)
        elif call.get("transport", "bundled") == "bundled":
            tr = transport_mod.HttpxTransport(base_url, **{k: v for k, v in call.get("transport_kwargs", {}).items()})
            old = tr._client
            tr._client = httpx.AsyncClient(base_url=base_url, transport=mock)
            if sid is not None:
                sessions[sid] = tr
        else:
            class PassThrough:
                def __init__(self):
                    self._client = httpx.AsyncClient(base_url=base_url, transport=mock)

                async def request(self, method, url, **kwargs):
                    return await self._client.request(method, url, **kwargs)

                async def close(self):
                    await self._client.aclose()
            tr = PassThrough()
            old = None
        out: dict = {"id": call.get("id")}
        try:
            m = importlib.import_module(f"{pkg}.endpoints.{call['module']}")
            cls = getattr(m, call["cls"])
            inst = cls(tr, base_url)
            fn = getattr(inst, call["method"])
            try:
                kwargs = {k: decode_arg(job, v) for k, v in call.get("args", {}).items()}
                pos = [decode_arg(job, v) for v in call.get("pos", [])]
            except BaseException as e:
                out["arg_error"] = err(e)
                out["outcome"] = {"kind": "arg_error"}
                out["requests"] = []
                results.append(out)
                continue

            async def go():
                try:
                    r = fn(*pos, **kwargs)
                    if inspect.isasyncgen(r):
                        items = []
                        async for x in r:
                            items.append(x)
                        return {"kind": "stream", "items": [reser(job, x) for x in items], "types": [type_tag(x) for x in items[:3]]}
                    v = await r
                    return {"kind": "returned", "type": type_tag(v), "json": reser(job, v)}
                finally:
                    await tr._client.aclose()
                    if old is not None:
                        await old.aclose()
            out["outcome"] = asyncio.run(go())
        except BaseException as e:
            chain = [c.__name__ for c in type(e).__mro__]
            o = {"kind": "raised", "type": type(e).__name__, "msg": str(e)[:300],
                 "is_http_error": isinstance(e, exc_mod.HTTPError), "is_client_error": isinstance(e, exc_mod.ClientError),
                 "is_server_error": isinstance(e, exc_mod.ServerError), "mro": chain[:6],
                 "status_code": getattr(e, "status_code", None),
                 "has_response": getattr(e, "response", None) is not None,
                 "response_status": getattr(getattr(e, "response", None), "status_code", None)}
            if not isinstance(e, exc_mod.HTTPError):
                o["tb"] = traceback.format_exc()[-600:]
            out["outcome"] = o
        reqs = []
        for rq in captured:
            reqs.append({"method": rq.method, "path": rq.url.raw_path.decode("ascii", "replace"), "url_path": rq.url.path,
                         "query": [[k, v] for k, v in rq.url.params.multi_items()],
                         "headers": [[k.decode("latin-1"), v.decode("latin-1")] for k, v in rq.headers.raw],
                         "content_b64": base64.b64encode(rq.content if hasattr(rq, "_content") else b"").decode()})
        out["requests"] = reqs
        results.append(out)
    return results


def main():
    job = json.loads(open(sys.argv[1]).read())
    setup(job)
    out: dict = {}
    for t in job["tasks"]:
        name = t if isinstance(t, str) else t["task"]
        try:
            if name == "import_all":
                out[name] = task_import_all(job)
            elif name == "surface":
                out[name] = task_surface(job)
            elif name == "models":
                out[name] = task_models(job)
            elif name == "roundtrip":
                out[name] = task_roundtrip(job, t["items"])
            elif name == "calls":
                out[name] = task_calls(job, t["calls"])
            else:
                out[name] = {"error": "unknown task"}
        except BaseException as e:
            out[name] = {"fatal": err(e), "tb": traceback.format_exc()[-1500:]}
    sys.stdout.write(json.dumps(out, default=str))


if __name__ == "__main__":
    main()
