#!/bin/sh
# usage: tools/try_mutant.sh <patch.diff> <prop> [<prop> ...]
# Applies the patch to a scratch worktree of the repository (never to /repo itself), runs the quick checks of THIS checkout of /verif
# against it with evidence/replays redirected to scratch, prints the VIOLATION / KNOWN-FINDING lines and exit codes, and cleans up.
set -u
HERE=$(cd "$(dirname "$0")/.." && pwd)
BASE_REPO=${VERIF_BASE_REPO:-/repo}
PATCH="$1"; shift
WT=/tmp/mutrepo-$$
git -C "$BASE_REPO" worktree add -q --detach "$WT" HEAD || exit 2
if ! git -C "$WT" apply "$PATCH"; then echo "PATCH DOES NOT APPLY"; git -C "$BASE_REPO" worktree remove --force "$WT"; exit 2; fi
OUTD=/tmp/mutout-$$; mkdir -p "$OUTD/evidence" "$OUTD/out"
for P in "$@"; do
  START=$(date +%s)
  VERIF_REPO="$WT" VERIF_EVIDENCE_DIR="$OUTD/evidence" VERIF_OUT_DIR="$OUTD/out" "$HERE/check" "$P" > "$OUTD/$P.log" 2>&1
  RC=$?
  echo "== $P rc=$RC ($(( $(date +%s) - START ))s)"
  grep -E "^VIOLATION|^  \(" "$OUTD/$P.log" | head -6
  [ "$RC" = "2" ] && { grep -B2 -A45 "most recent call first" "$OUTD/$P.log" | head -120; tail -5 "$OUTD/$P.log"; }
done
git -C "$BASE_REPO" worktree remove --force "$WT"
# restore the generated tables to the repository's own state
(cd "$HERE" && VERIF_REPO="$BASE_REPO" /venv/bin/python -m vf.extract_tables >/dev/null && cd lean && lake build Pog driver >/dev/null 2>&1)
rm -rf "$OUTD"
