import Pog.Model.Basic
import Pog.Gen.Resolver
/-
  Model of `OpenAPISchemaResolver` (`types/resolvers/schema_resolver.py`), branch for branch.

    * `IR`          : the fields of `IRSchema` the resolver reads (`uid` = python object identity)
    * `Ann`/`render`: `ResolvedType.python_type` as a tree and the exact text the code builds
    * `dispatch`    : the control flow of `resolve_schema` — WHICH branch is taken (a leaf, a recursive call on
                      another schema, the array branch, the anyOf/oneOf loop)
    * `leaf`        : the non-recursive `_resolve_*` helpers (`_resolve_named_schema` incl. the self-import test,
                      `_resolve_string`, `_resolve_boolean`, …)
    * `resolve`     : `resolve_schema`, fuel-recursive (`none` = out of fuel; on a registry cycle the code raises
                      `RecursionError`), the `context.add_import` calls threaded in call order

  `IRSchema` has no `ref` attribute, so the `$ref` branch of `resolve_schema` is dead and not modelled; an
  `IRSchema` instance is always truthy (`if not schema` never fires).
  Tables `formatMapping` / `formatDefault` / `formatImports` come from the GENERATED `Pog/Gen/Resolver.lean`.
  [TRUSTED: `posixpath.basename` / `posixpath.dirname` (written out below), python `dict` / `dict.fromkeys`.]
-/
namespace Pog.Resolve
open Pog

/-! ## inputs -/

/-- The fields of `IRSchema` read by the resolver.  `some []` is the empty python string (falsy). -/
structure IR where
  /-- python object identity (`target_schema is not schema`) -/
  uid : Nat
  name : Option Str
  genName : Option Str
  stem : Option Str
  ty : Option Str
  format : Option Str
  /-- `bool(schema.enum)` -/
  enumNonEmpty : Bool
  /-- the enum values of a boolean schema: `none` = JSON null, `some b` = `bool(value)` -/
  boolEnum : List (Option Bool)
  items : Option IR
  /-- `bool(schema.properties)` -/
  hasProps : Bool
  anyOf : Option (List IR)
  oneOf : Option (List IR)
  allOf : Option (List IR)
  deriving Repr, Inhabited

/-- python truthiness of an `Optional[str]` -/
def truthy : Option Str → Bool
  | some (_ :: _) => true
  | _ => false

/-- python truthiness of an `Optional[list]` -/
def nonEmptyL {α : Type} : Option (List α) → Bool
  | some (_ :: _) => true
  | _ => false

/-- what `context.render_context.calculate_relative_path_for_internal_module` does -/
inductive RelMode where
  /-- no `render_context`, or it lacks the method -/
  | absent
  /-- the method returns `f target` (`none` = `None`, `some []` = `""`) -/
  | ret (f : Str → Option Str)
  /-- the method raises (any `Exception`) -/
  | raises

/-- the ordered record of `context.add_import(module, name)` calls -/
abbrev Imps := List (Str × Str)

def addImp (imps : Imps) (m n : Str) : Imps := imps ++ [(m, n)]

/-! ## outputs -/

/-- `ResolvedType.python_type` as a tree. -/
inductive Ann where
  /-- a bare name -/
  | name (n : Str)
  /-- `"n"` : a quoted forward reference -/
  | quoted (n : Str)
  /-- `List[a]` -/
  | list (a : Ann)
  /-- `Union[a1, a2, …]` -/
  | union (as : List Ann)
  /-- `Literal[True]` / `Literal[False]` -/
  | literalBool (b : Bool)
  /-- `dict[str, Any]` -/
  | dictStrAny
  deriving Repr, Inhabited

mutual
  /-- the python_type string -/
  def render : Ann → Str
    | .name n => n
    | .quoted n => ['"'] ++ n ++ ['"']
    | .list a => ['L', 'i', 's', 't', '['] ++ render a ++ [']']
    | .union as => ['U', 'n', 'i', 'o', 'n', '['] ++ joinWith [',', ' '] (renderAll as) ++ [']']
    | .literalBool b => ['L', 'i', 't', 'e', 'r', 'a', 'l', '['] ++ (if b then ['T', 'r', 'u', 'e'] else ['F', 'a', 'l', 's', 'e']) ++ [']']
    | .dictStrAny => ['d', 'i', 'c', 't', '[', 's', 't', 'r', ',', ' ', 'A', 'n', 'y', ']']
  def renderAll : List Ann → List Str
    | [] => []
    | a :: as => render a :: renderAll as
end

/-- mirrors `ResolvedType` -/
structure Resolved where
  ann : Ann
  optional : Bool
  forwardRef : Bool := false
  needsImport : Bool := false
  importModule : Option Str := none
  importName : Option Str := none
  deriving Repr, Inhabited

/-- `if r.is_forward_ref and not s.startswith('"'): s = f'"{s}"'` -/
def quoteIfFwd (a : Ann) (fwd : Bool) : Ann :=
  if fwd && !startsWith (render a) ['"'] then .quoted (render a) else a

/-! ## paths (`posixpath`) -/

/-- `os.path.basename(p)` = `p[p.rfind('/')+1:]` -/
def pathBasename (p : Str) : Str := (p.reverse.takeWhile (· != '/')).reverse

/-- `p[:p.rfind('/')+1]` -/
def pathHead (p : Str) : Str := (p.reverse.dropWhile (· != '/')).reverse

/-- `os.path.dirname(p)`: the head, its trailing slashes stripped unless it consists of slashes only -/
def pathDirname (p : Str) : Str :=
  let head := pathHead p
  if !head.isEmpty && !head.all (· == '/') then rstripC '/' head else head

def dotPy : Str := ['.', 'p', 'y']
def modelsDir : Str := ['m', 'o', 'd', 'e', 'l', 's']

/-- `is_self_import` of `_resolve_named_schema` -/
def selfImport (cur : Option Str) (stem : Str) : Bool :=
  match cur with
  | some (c :: cs) =>
    pathBasename (c :: cs) == stem ++ dotPy && pathBasename (pathDirname (c :: cs)) == modelsDir
  | _ => false

def modelsDot : Str := ['m', 'o', 'd', 'e', 'l', 's', '.']
def dotDotModelsDot : Str := ['.', '.', 'm', 'o', 'd', 'e', 'l', 's', '.']

/-- `import_module` of `_resolve_named_schema` -/
def importModuleOf (rel : RelMode) (stem : Str) : Str :=
  match rel with
  | .ret f =>
    match f (modelsDot ++ stem) with
    | some (c :: cs) => c :: cs
    | _ => dotDotModelsDot ++ stem
  | _ => dotDotModelsDot ++ stem

/-! ## leaves -/

def sAny : Str := ['A', 'n', 'y']
def sTyping : Str := ['t', 'y', 'p', 'i', 'n', 'g']

/-- `class_name or "Any"` -/
def orAny : Option Str → Str
  | some (c :: cs) => c :: cs
  | _ => sAny

/-- the non-recursive outcomes of `resolve_schema` -/
inductive Leaf where
  /-- `_resolve_null` -/
  | null
  /-- `_resolve_any` -/
  | any
  /-- `_resolve_named_schema` -/
  | named
  | string
  | integer
  | number
  | boolean
  /-- `_resolve_array` without `items` -/
  | arrayNoItems
  | object
  deriving DecidableEq, Repr

/-- `_resolve_named_schema(schema, context, required)` -/
def resolveNamed (cur : Option Str) (rel : RelMode) (s : IR) (required : Bool) (imps : Imps) : Resolved × Imps :=
  let cls := orAny s.genName
  match s.stem with
  | some (c :: cs) =>
    let stem := c :: cs
    if selfImport cur stem then
      ({ ann := .name cls, optional := !required, forwardRef := true }, imps)
    else
      let m := importModuleOf rel stem
      ({ ann := .name cls, optional := !required, needsImport := true, importModule := some m, importName := some cls },
       addImp imps m cls)
  | _ => ({ ann := .name cls, optional := !required }, imps)

/-- the first arm `python_type == T` of the import chain of `_resolve_string` -/
def importFor (t : Str) : Option (Str × Str) :=
  (Pog.Gen.formatImports.find? (fun r => r.1 == t)).map (fun r => r.2)

/-- `_resolve_string(schema, context, required)` -/
def resolveString (s : IR) (required : Bool) (imps : Imps) : Resolved × Imps :=
  if s.enumNonEmpty then
    match s.genName with
    | some (c :: cs) => ({ ann := .name (c :: cs), optional := !required }, imps)
    | _ => ({ ann := .name ['s', 't', 'r'], optional := !required }, imps)
  else
    match s.format with
    | some (c :: cs) =>
      let t := (Pog.Gen.formatMapping.lookup (c :: cs)).getD Pog.Gen.formatDefault
      let imps' := match importFor t with
        | some (m, n) => addImp imps m n
        | none => imps
      ({ ann := .name t, optional := !required }, imps')
    | _ => ({ ann := .name ['s', 't', 'r'], optional := !required }, imps)

/-- `_resolve_boolean(schema, context, required)` -/
def resolveBoolean (s : IR) (required : Bool) (imps : Imps) : Resolved × Imps :=
  if s.enumNonEmpty then
    match s.boolEnum.filterMap id with
    | [v] => ({ ann := .literalBool v, optional := !required }, addImp imps sTyping ['L', 'i', 't', 'e', 'r', 'a', 'l'])
    | _ => ({ ann := .name ['b', 'o', 'o', 'l'], optional := !required }, imps)
  else ({ ann := .name ['b', 'o', 'o', 'l'], optional := !required }, imps)

/-- one non-recursive `_resolve_*` -/
def leaf (cur : Option Str) (rel : RelMode) (k : Leaf) (s : IR) (required : Bool) (imps : Imps) : Resolved × Imps :=
  match k with
  | .null => ({ ann := .name sAny, optional := !required }, addImp imps sTyping sAny)
  | .any => ({ ann := .name sAny, optional := !required }, addImp imps sTyping sAny)
  | .named => resolveNamed cur rel s required imps
  | .string => resolveString s required imps
  | .integer => ({ ann := .name ['i', 'n', 't'], optional := !required }, imps)
  | .number => ({ ann := .name ['f', 'l', 'o', 'a', 't'], optional := !required }, imps)
  | .boolean => resolveBoolean s required imps
  | .arrayNoItems =>
    ({ ann := .list (.name sAny), optional := !required }, addImp (addImp imps sTyping ['L', 'i', 's', 't']) sTyping sAny)
  | .object =>
    ({ ann := .dictStrAny, optional := !required }, addImp (addImp imps sTyping ['D', 'i', 'c', 't']) sTyping sAny)

/-! ## control flow -/

/-- which branch `resolve_schema` takes -/
inductive Branch where
  | leaf (k : Leaf)
  /-- `return self.resolve_schema(t, context, required, resolve_underlying)` -/
  | goto (t : IR)
  /-- `_resolve_array` with items: the item is resolved with `required=True, resolve_underlying=ru'` -/
  | array (item : IR) (ru' : Bool)
  /-- the loop of `_resolve_any_of` / `_resolve_one_of` over a non-empty member list -/
  | union (ms : List IR)

def primTypes : List Str := [['s', 't', 'r', 'i', 'n', 'g'], ['i', 'n', 't', 'e', 'g', 'e', 'r'], ['n', 'u', 'm', 'b', 'e', 'r'], ['b', 'o', 'o', 'l', 'e', 'a', 'n']]

/-- `resolve_underlying and sub.name and not sub.properties and sub.type in ("string", "integer", "number", "boolean")` -/
def subRu (ru : Bool) (m : IR) : Bool :=
  ru && truthy m.name && !m.hasProps &&
    (match m.ty with
     | some t => primTypes.contains t
     | none => false)

/-- `schema.name and schema.name in self.ref_resolver.schemas` -/
def nameInReg (reg : List (Str × IR)) (s : IR) : Bool :=
  match s.name with
  | some (c :: cs) => (reg.lookup (c :: cs)).isSome
  | _ => false

/-- the registry fallback by `schema.name`: the target unless it is the very same object -/
def nameTarget (reg : List (Str × IR)) (s : IR) : Option IR :=
  match s.name with
  | some (c :: cs) =>
    match reg.lookup (c :: cs) with
    | some t => if t.uid != s.uid then some t else none
    | none => none
  | _ => none

/-- `schema.type` naming a registered schema whose `name` is truthy (no identity test here) -/
def typeTarget (reg : List (Str × IR)) (s : IR) : Option IR :=
  match s.ty with
  | some (c :: cs) =>
    match reg.lookup (c :: cs) with
    | some t => if truthy t.name then some t else none
    | none => none
  | _ => none

/-- the `if schema_type == …` chain at the end of `resolve_schema` -/
def byType (s : IR) (ru : Bool) : Branch :=
  match s.ty with
  | none => .leaf .null
  | some t =>
    if t = ['s', 't', 'r', 'i', 'n', 'g'] then .leaf .string
    else if t = ['i', 'n', 't', 'e', 'g', 'e', 'r'] then .leaf .integer
    else if t = ['n', 'u', 'm', 'b', 'e', 'r'] then .leaf .number
    else if t = ['b', 'o', 'o', 'l', 'e', 'a', 'n'] then .leaf .boolean
    else if t = ['a', 'r', 'r', 'a', 'y'] then
      (match s.items with
       | none => .leaf .arrayNoItems
       | some it => .array it (subRu ru it))
    else if t = ['o', 'b', 'j', 'e', 'c', 't'] then .leaf .object
    else if t = ['n', 'u', 'l', 'l'] then .leaf .null
    else if t = ['A', 'n', 'y'] then .leaf .any
    else if t = ['N', 'o', 'n', 'e'] then .leaf .null
    else .leaf .any

/-- the branch of `resolve_schema(schema, context, required, resolve_underlying)` (it does not depend on `required`) -/
def dispatch (reg : List (Str × IR)) (s : IR) (ru : Bool) : Branch :=
  if s.ty.isNone && !truthy s.genName && !nonEmptyL s.anyOf && !nonEmptyL s.oneOf && !nonEmptyL s.allOf
      && !nameInReg reg s then .leaf .null
  else
  let isBooleanEnum := s.ty == some ['b', 'o', 'o', 'l', 'e', 'a', 'n'] && s.enumNonEmpty
  if truthy s.name && truthy s.genName && !isBooleanEnum && !ru then .leaf .named
  else
  match s.anyOf with
  | some [] => .leaf .any
  | some (m :: ms) => .union (m :: ms)
  | none =>
  match s.allOf with
  | some ms =>
    (match ms.find? (fun m => truthy m.ty) with
     | some t => .goto t
     | none => .leaf .any)
  | none =>
  match s.oneOf with
  | some [] => .leaf .any
  | some (m :: ms) => .union (m :: ms)
  | none =>
  match nameTarget reg s with
  | some t => .goto t
  | none =>
  match typeTarget reg s with
  | some t => .goto t
  | none => byType s ru

/-! ## assembly -/

/-- `list(dict.fromkeys(texts))` on trees compared by their text -/
def dedupAnn : List Ann → List Str → List Ann
  | [], _ => []
  | a :: rest, seen =>
    if seen.contains (render a) then dedupAnn rest seen else a :: dedupAnn rest (render a :: seen)

/-- the tail of `_resolve_any_of` / `_resolve_one_of` given the (already quoted) member types -/
def unionOf (parts : List Ann) (required : Bool) (imps : Imps) : Resolved × Imps :=
  match parts with
  | [single] => ({ ann := single, optional := !required }, imps)
  | _ => ({ ann := .union (dedupAnn parts []), optional := !required }, addImp imps sTyping ['U', 'n', 'i', 'o', 'n'])

/-- the tail of `_resolve_array` given the resolved item -/
def arrayOf (item : Resolved) (required : Bool) (imps : Imps) : Resolved × Imps :=
  ({ ann := .list (quoteIfFwd item.ann item.forwardRef), optional := !required }, addImp imps sTyping ['L', 'i', 's', 't'])

/-- the member loop of `_resolve_any_of` / `_resolve_one_of`; `rec` is `resolve_schema` -/
def members (rec : IR → Bool → Bool → Imps → Option (Resolved × Imps)) (ru : Bool) :
    List IR → Imps → Option (List Ann × Imps)
  | [], imps => some ([], imps)
  | m :: ms, imps =>
    match rec m true (subRu ru m) imps with
    | none => none
    | some (r, imps1) =>
      match members rec ru ms imps1 with
      | none => none
      | some (as, imps2) => some (quoteIfFwd r.ann r.forwardRef :: as, imps2)

/-- `OpenAPISchemaResolver(OpenAPIReferenceResolver(reg)).resolve_schema(s, ctx, required, ru)`;
    `imps` = the `add_import` calls recorded so far; `none` = out of fuel. -/
def resolve (reg : List (Str × IR)) (cur : Option Str) (rel : RelMode) :
    Nat → IR → Bool → Bool → Imps → Option (Resolved × Imps)
  | 0, _, _, _, _ => none
  | fuel + 1, s, required, ru, imps =>
    match dispatch reg s ru with
    | .leaf k => some (leaf cur rel k s required imps)
    | .goto t => resolve reg cur rel fuel t required ru imps
    | .array item ru' =>
      (match resolve reg cur rel fuel item true ru' imps with
       | none => none
       | some (r, imps1) => some (arrayOf r required imps1))
    | .union ms =>
      (match members (resolve reg cur rel fuel) ru ms imps with
       | none => none
       | some (parts, imps1) => some (unionOf parts required imps1))

/-! ## the names an annotation uses (specification side of property 1) -/

mutual
  /-- the UNQUOTED names python looks up when it evaluates the annotation (`True`/`False` are constants; a `name`
      whose text begins with `"` is a string literal for python, not a name) -/
  def names : Ann → List Str
    | .name n => if startsWith n ['"'] then [] else [n]
    | .quoted _ => []
    | .list a => ['L', 'i', 's', 't'] :: names a
    | .union as => ['U', 'n', 'i', 'o', 'n'] :: namesAll as
    | .literalBool _ => [['L', 'i', 't', 'e', 'r', 'a', 'l']]
    | .dictStrAny => [['d', 'i', 'c', 't'], ['s', 't', 'r'], sAny]
  def namesAll : List Ann → List Str
    | [] => []
    | a :: as => names a ++ namesAll as
end

/-- the names used by a result: a top-level forward reference is quoted by `_format_resolved_type` -/
def usedNames (r : Resolved) : List Str := if r.forwardRef then [] else names r.ann

/-- python builtins the resolver relies on -/
def builtinNames : List Str :=
  [['s', 't', 'r'], ['i', 'n', 't'], ['f', 'l', 'o', 'a', 't'], ['b', 'o', 'o', 'l'], ['b', 'y', 't', 'e', 's'], ['d', 'i', 'c', 't']]

/-! ## the two returns that name a class without requesting its import (the excluded class of property 1) -/

/-- `_resolve_named_schema` without `final_module_stem` returns `class_name` bare; `_resolve_string` on an enum with a
    `generation_name` (reached with `resolve_underlying=True` or for a nameless schema) returns the enum class bare. -/
def leafHazard (k : Leaf) (s : IR) : Bool :=
  match k with
  | .named => !truthy s.stem
  | .string => s.enumNonEmpty && truthy s.genName
  | _ => false

/-- the resolution of `s` (followed with the same fuel as `resolve`) passes through none of the two returns above -/
def hazardFree (reg : List (Str × IR)) : Nat → IR → Bool → Bool
  | 0, _, _ => true
  | fuel + 1, s, ru =>
    match dispatch reg s ru with
    | .leaf k => !leafHazard k s
    | .goto t => hazardFree reg fuel t ru
    | .array item ru' => hazardFree reg fuel item ru'
    | .union ms => ms.all (fun m => hazardFree reg fuel m (subRu ru m))

mutual
  /-- the annotation holds a quoted forward reference -/
  def hasQuoted : Ann → Bool
    | .quoted _ => true
    | .list a => hasQuoted a
    | .union as => hasQuotedAny as
    | _ => false
  def hasQuotedAny : List Ann → Bool
    | [] => false
    | a :: as => hasQuoted a || hasQuotedAny as
end

/-- property 1 on one result, as a check: every used name is a builtin or the `name` of a recorded `add_import` -/
def coverOK (x : Resolved × Imps) : Bool :=
  (usedNames x.1).all (fun n => builtinNames.contains n || x.2.any (fun p => p.2 == n))

end Pog.Resolve
