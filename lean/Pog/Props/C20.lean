import Pog.Lemmas.Names
import Pog.Props.ClientGen
import Pog.Props.Loader
import Pog.Props.Extract
import Pog.Lemmas.Fresh
/-
  C20 — name derivation is total, valid and collision-safe.

  FULL STATEMENT (what the property says): for every input string, every identifier the generator
  derives (class, module, method/field/parameter, enum member) is a non-empty ASCII Python
  identifier that is not a keyword; names that collide inside one namespace receive distinct
  identifiers and none is dropped.

  What is proved below, per derivation.  `✗` marks full statements that are FALSE of the current
  code; they appear as `_partial` (hypothesis = the exact excluded input class) + `_counterexample`.

    class names    : identifier for EVERY input (full); keyword-freedom ✗ (`none`,`true`,`false`)
    method/field   : valid and keyword-free iff the input has an ASCII alphanumeric ✗ (`$`, `用户`)
    module names   : same input class ✗
    enum members   : total, valid, keyword-free for EVERY input and every CPython case table (full)
    fresh loops    : terminate, output pairwise distinct, same length (nothing dropped) (full)
    operation ids  : the de-duplication pass ends, keeps every operation, makes the method names pairwise distinct and is idempotent (full; F17 repaired)
-/
/-
  C20, names invented by the inline-extraction passes (`{Parent}{Prop}Item`, `{Parent}{Prop}Enum`, numeric suffix loops;
  Pog/Model/Extract.lean, proved in Pog/Props/Extract.lean, claimed here):
    extract_new_names_fresh / extract_keys_nodup   every promoted name is new, the new names are pairwise distinct, distinct keys stay distinct
    suffix_loops_terminate                         the `while name in schemas` loops terminate (fuel |taken|+1 suffices)
    extract_keeps_original_names / extract_never_shrinks   original keys stay, in order
-/
-- INDEX Pog.ExtractProps: extract_keeps_original_names, extract_never_shrinks, suffix_loops_terminate, extract_new_names_fresh, extract_keys_nodup, enum_entry_name_counterexample
/-
  C20, names of schemas promoted from responses / request bodies / parameters (`{opId}{code}Response`, `{opId}Param{Name}`, …;
  Pog/Model/Loader.lean; claimed from Pog/Props/Loader.lean):
    promotion_names_injective_same_operation / _partial / respPromoName_eq_iff   when two requested names coincide
    ✗ promotion_name_collision_*           the collisions that exist (two media types of one response; `a-b` vs `a_b`; `get_user` vs `getUser`)
    ✗ post_process_*_name_collision        two responses of one operation are both renamed `{OpId}Response`
-/
-- INDEX Pog.LoaderProps: respPromoName_eq_iff, promotion_names_differ_unless_prefix, promotion_names_injective_same_operation, promotion_names_injective_partial, response_vs_body_promotion_names_disjoint, promotion_name_collision_arbitrary_keys, promotion_name_collision_same_response, promotion_name_collision_request_body, promotion_name_collision_parameters, promotion_name_collision_after_sanitize, post_process_response_name_collision_counterexample, post_process_request_name_collision_counterexample
/-
  C20, the argument list of an endpoint method at the loader (F4 repaired: an operation-level parameter overrides the path-level one
  with the same (name, in)):
    parameters_no_duplicate_key            no two parsed parameters of an operation share (name, in) when neither declared list does
    parameters_override_former_witness     the former witness (`id`/path at both levels): one entry, the operation-level one
-/
-- INDEX Pog.LoaderProps: parameters_no_duplicate_key, parameters_override_former_witness
/-
  C20, tag attribute names on APIClient (Pog/Model/ClientGen.lean; claimed from Pog/Props/ClientGen.lean):
    property_names_valid_partial           valid non-keyword identifiers (and client.py compiles) when every tag has an ASCII alphanumeric
    property_name_never_config             no property is ever named `config` (RESERVED_NAMES, regenerated table)
    property_names_pairwise_distinct_partial   distinct for ASCII tags; ✗ `aé` / `a`
    property_names_avoid_dunder (F64 repaired)   for every input never `_base_url`, `__aenter__`, `__aexit__`, `__init__`
    private_attr_never_own_member (F64 repaired)   for every input `self._<attr>` is none of `config`, `transport`, `_base_url`, a method, `__init__`;
                                           `fixed_attrs_assigned_once`; `private_attr_base_url_former_witness`: module `base_url` → `self._base_url_`
    private_attr_names_distinct_from_public_partial   `_<attr>` is no property name when every tag is ASCII or has an ASCII alphanumeric; ✗ `ké` / `_K`
-/
-- INDEX Pog.ClientGenProps: property_names_valid_partial, property_names_valid_counterexample, property_name_never_config, property_names_avoid_dunder, property_named_base_url_former_witness, property_names_pairwise_distinct_partial, property_names_pairwise_distinct_counterexample, private_attr_never_own_member, fixed_attrs_assigned_once, private_attr_names_distinct_from_public_partial, private_attr_base_url_former_witness, private_attr_counterexample
namespace Pog.C20
open Pog

/-! ## class names -/

/-- Every class name is a valid ASCII identifier — all inputs, no hypothesis. -/
theorem class_name_is_identifier (s : Str) : isPyIdent (sanClass s) = true :=
  Pog.sanClass_isPyIdent s

/-- `class_name_valid` at full strength (F28 repaired: the capitalised keywords `None`/`True`/`False` get the `_` suffix too):
    for EVERY input the class name is a valid ASCII identifier and not a keyword. -/
theorem class_name_valid (s : Str) : isPyIdent (sanClass s) = true ∧ isKeyword (sanClass s) = false :=
  ⟨Pog.sanClass_isPyIdent s, Pog.sanClass_not_keyword s⟩

/-- The inputs that used to come out as keywords. -/
theorem class_name_former_keywords :
    sanClass "none".toList = "None_".toList ∧ sanClass "true".toList = "True_".toList ∧ sanClass "FALSE".toList = "False_".toList ∧
    sanClass "class".toList = "Class_".toList ∧ sanClass "UserGroup".toList = "UserGroup".toList := by
  decide

/-! ## method / field / parameter names (`sanitize_method_name`) -/

/-- The derived name is empty exactly when the input has no ASCII alphanumeric. -/
theorem method_name_empty_iff (s : Str) : sanMethod s = [] ↔ s.any isAlnumA = false :=
  Pog.sanMethod_empty_iff s

theorem method_name_valid_partial (s : Str) (h : s.any isAlnumA = true) :
    isPyIdent (sanMethod s) = true ∧ isKeyword (sanMethod s) = false :=
  Pog.sanMethod_valid s h

/-- ✗ witnesses: symbol-only and non-ASCII names derive the empty identifier. -/
theorem method_name_counterexample :
    sanMethod "$".toList = [] ∧ sanMethod "_".toList = [] ∧ sanMethod "用户".toList = [] := by
  decide

example : ("getUserById".toList).any isAlnumA = true := by decide

/-! ## module names (`sanitize_module_name`) -/

theorem module_name_valid_partial (u : UInfo) (s : Str) (h : s.any isAlnumA = true) :
    isPyIdent (sanModule u s) = true ∧ isKeyword (sanModule u s) = false :=
  Pog.sanModule_valid u s h

theorem module_name_counterexample : sanModule UInfo.ascii "-".toList = [] := by decide

/-! ## enum members -/

/-- Total: the final `raise ValueError` of the python function is unreachable. -/
theorem enum_member_total (u : UInfo) (v : Str) : (enumMemberStr u v).isSome = true :=
  Pog.enumMemberStr_isSome u v

theorem enum_member_valid (u : UInfo) (v n : Str) (h : enumMemberStr u v = some n) :
    isPyIdent n = true ∧ isKeyword n = false :=
  Pog.enumMemberStr_valid u v n h

/-! ## collision safety of the suffix loops -/

/-- The python `while` loops terminate and yield pairwise distinct names, one per input. -/
theorem field_names_nodup (props : List Str) :
    ∃ l, fieldNames props = some l ∧ l.Nodup ∧ l.length = props.length :=
  Pog.assignAll_map_spec _ _ Pog.sufUnderscore_inj _ _

theorem enum_members_nodup (bases : List Str) :
    ∃ l, enumMemberNames bases = some l ∧ l.Nodup ∧ l.length = bases.length :=
  Pog.assignAll_spec _ _ Pog.sufUnderscore_inj _

theorem class_names_nodup (names : List Str) :
    ∃ l, classNames names = some l ∧ l.Nodup ∧ l.length = names.length :=
  Pog.assignAll_map_spec _ _ Pog.classCand_inj _ _

theorem module_stems_nodup (u : UInfo) (names : List Str) :
    ∃ l, moduleStems u names = some l ∧ l.Nodup ∧ l.length = names.length :=
  Pog.assignAll_map_spec _ _ Pog.sufUnderscore_inj _ _

theorem inline_name_fresh (taken : List Str) (base : Str) :
    ∃ n, inlineName taken base = some n ∧ n ∉ taken :=
  Pog.freshName_spec _ _ _ _ (Pog.sufPlain_inj base)

/-- A suffixed field name is still a valid identifier and not a keyword. -/
theorem suffixed_name_valid (base : Str) (k : Nat) (h : isPyIdent base = true) :
    isPyIdent (sufUnderscore base k) = true ∧ isKeyword (sufUnderscore base k) = false :=
  Pog.sufUnderscore_valid base k h

/-! ## operation ids -/

/-- Two suffix candidates of one id never sanitise to the same method name: `sanitize_method_name(f"{id}_{i}")` determines `i`
    (every id - braces, camelCase, non-ASCII, empty). -/
theorem suffixed_method_names_differ (id : Str) (i j : Nat) (h : sufMethod id i = sufMethod id j) : i = j :=
  Pog.sufMethod_inj id i j h

/-- Every `while` loop of the pass ends: from any state of `seen_methods` and any counter, the fuel `|seen_methods| + 1` of the
    model is enough, and the name found is not taken (pigeonhole over the injective candidates). -/
theorem op_ids_suffix_search_terminates (seen : List (Str × Nat)) (id : Str) (start : Nat) :
    ∃ k, findFresh (sufMethod id) (seenKeys seen) start (seen.length + 1) = some k ∧ sufMethod id k ∉ seenKeys seen :=
  Pog.dedup_search_ends seen id start

/-- `op_ids_nodup` at full strength (F17 repaired: the suffix search skips names that are taken and records the name it hands
    out).  For EVERY list of operation ids the pass ends (`some`: the fuel bound is provably sufficient, not assumed), keeps
    one id per operation, every output id is the input id or the input id with a numeric suffix, and the METHOD NAMES of the
    output are pairwise distinct. -/
theorem op_ids_nodup (ids : List Str) :
    ∃ out, dedupOpIds? [] ids = some out ∧ out.length = ids.length ∧ (out.map sanMethod).Nodup ∧
      (∀ p ∈ ids.zip out, p.2 = p.1 ∨ ∃ n, p.2 = sufId p.1 n) := by
  obtain ⟨out, h1, h2, h3, _, h5⟩ := Pog.dedupOpIds?_spec ids []
  exact ⟨out, h1, h2, h3, h5⟩

/-- The same in terms of the total function used by the downstream models (`dedupOpIds? = some ∘ dedupOpIds`). -/
theorem method_names_nodup (ids : List Str) :
    dedupOpIds? [] ids = some (dedupOpIds [] ids) ∧ (methodNames ids).length = ids.length ∧ (methodNames ids).Nodup :=
  ⟨Pog.dedupOpIds?_eq_some [] ids, by simp [methodNames, (Pog.dedupOpIds_spec [] ids).1], Pog.methodNames_nodup ids⟩

/-- The former witness of F17 (`foo, foo, foo_2` used to give `foo, foo_2, foo_2`) and inputs whose output must not change. -/
theorem op_ids_nodup_former_witness :
    dedupOpIds? [] ["foo".toList, "foo".toList, "foo_2".toList]
      = some ["foo".toList, "foo_2".toList, "foo_2_2".toList] ∧
    dedupOpIds? [] ["foo".toList, "foo".toList, "foo".toList]
      = some ["foo".toList, "foo_2".toList, "foo_3".toList] ∧
    dedupOpIds? [] ["foo_2".toList, "foo".toList, "foo".toList, "foo".toList]
      = some ["foo_2".toList, "foo".toList, "foo_3".toList, "foo_4".toList] ∧
    methodNames ["getUser".toList, "get_user".toList, "GetUser".toList, "get_user_2".toList]
      = ["get_user".toList, "get_user_2".toList, "get_user_3".toList, "get_user_2_2".toList] := by decide

/-- The pass is idempotent on EVERY input (it used not to be: `foo, foo, foo_2`): a second `emit` over the same operation
    objects changes nothing (C09). -/
theorem op_ids_idempotent (ids : List Str) : dedupOpIds [] (dedupOpIds [] ids) = dedupOpIds [] ids :=
  Pog.dedupOpIds_idempotent ids

/-- When the sanitised ids are already pairwise distinct the pass changes nothing. -/
theorem op_ids_unchanged_when_distinct (ids : List Str) (h : (ids.map sanMethod).Nodup) :
    dedupOpIds [] ids = ids ∧ (methodNames ids).Nodup :=
  Pog.dedupOpIds_of_nodup ids h

example : (["listPets".toList, "createPet".toList].map sanMethod).Nodup := by decide

end Pog.C20
