import Pog.Lemmas.SinksDoc
import Pog.Props.Dc
/-
  C15 — spec text can never alter the structure of generated code.

  FULL STATEMENT (✗ — false of the code, see the `_counterexample`s): free text taken from the document
  (titles, summaries, descriptions, enum values, defaults, property names, parameter names, tags,
  discriminator values, media types) only ever appears in generated code as inert comment, docstring or
  string-literal content.  Whatever characters it contains, every file still parses, the set of
  classes, functions and statements is the same as for benign text, and literals that carry meaning
  (enum values, wire keys, header and query names) evaluate to exactly the original strings.

  What is true of the code, per sink class (models: Pog/Model/Sinks.lean; "is one token" and "evaluates
  to" are decided by M-pylex, Pog/Model/PyLex.lean, with CPython as referee in corr_c15.py):

    literal sinks  `f'"{text}"'`  — enum values, Meta keys, query/header names, discriminator property
                   and mapping keys, `Literal["media/type"]`: NO escaping at all.
                     ✗ ∀ s, evalStrLit (renderLit s) = some s
                     ✓ `literal_sink_exact`   … = some s  ↔  litSafe s   (no `"` LF CR NUL, every `\` starts an
                                               escape Python does NOT interpret, no trailing `\`)
                     ✓ `literal_sink_partial` for text without `"` `\` LF CR NUL
                   in endpoint modules the finished method code is re-emitted through `write_block`
                   (`splitlines()`): ✓ `endpoint_literal_partial` if the name has no `str.splitlines` boundary either
                     ✗ `endpoint_literal_counterexample` (U+2028, `\x0c`, … cut the literal in two lines)
    default sink   `json.dumps(s)` — string defaults of dataclass fields:
                     ✓ `default_sink_codepoints` (FULL): Python reads the text back as the UTF-16 code units of s
                     ✓ `default_sink_exact`   … = some s  ↔  s has no astral character
                     ✗ for astral characters (two lone surrogates instead of the character)
    comment sink   `# ` + text.replace("\n", " ") — field descriptions:
                     ✓ `comment_sink_exact`   one comment token ↔ no CR, no NUL     ✗ otherwise
    docstring sinks `"""…"""`:
       alias       (escapes `\` and `"""`)     ✓ `alias_doc_exact`: one literal ↔ no NUL and the run of `"` at the
                                                 END of the text has length ≡ 0 (mod 3)      ✗ `desc"`
       tag one-liners, class / method docstrings (DocumentationWriter), APIClient docstring: no escaping
                     ✓ `…_partial` for text without `"` `\` NUL  (`docClean`), for EVERY textwrap that only
                       rearranges characters (`WrapSafe`, `DedentSafe` — observed on every real call)
                     ✗ `"""` anywhere, `\x`/`\u`/`\N` + non-hex (a Windows path is enough): the file no
                       longer parses.

  Trusted (correspondence only): M-pylex = CPython 3.12 tokenizer/string decoder; `jsonEscChar` =
  `json.dumps`; `splitLines`/`stripWs` = `str.splitlines`/`str.strip`; `textwrap` is a parameter.
-/
/-
  C15 for the sink "string default of a dataclass field" through `_get_field_default` (Pog/Model/Dc.lean; claimed from Pog/Props/Dc.lean):
    str_default_is_one_literal             the emitted text is always ONE string literal (for every default string)
    str_default_exact / _partial           it evaluates to the default iff the string has no character outside the BMP
    ✗ str_default_counterexample           an astral character comes back as two surrogates (json.dumps with ensure_ascii)
-/
-- INDEX Pog.DcProps: str_default_is_one_literal, str_default_exact, str_default_partial, str_default_counterexample, default_str, default_bool, default_int, default_float
namespace Pog.C15
open Pog

/-! ## Literal sinks -/

/-- Every literal sink pastes the text between two `"` and nothing else (the sink lines, as rendered). -/
theorem literal_sinks_shape (name value api py var schema : Str) :
    renderEnumMember name value = name ++ " = ".toList ++ renderLit value
    ∧ renderMetaEntry api py = renderLit api ++ ": ".toList ++ renderLit py ++ [',']
    ∧ renderDictKey name var = "    ".toList ++ renderLit name ++ ": DataclassSerializer.serialize(".toList ++ var ++ "),".toList
    ∧ renderDiscProp value = "    property_name: str = ".toList ++ renderLit value
    ∧ renderDiscPair value schema = "        (".toList ++ renderLit value ++ ", ".toList ++ renderLit schema ++ "),".toList
    ∧ renderDiscEntry value schema = "            ".toList ++ renderLit value ++ ": ".toList ++ schema ++ [',']
    ∧ renderLiteralCt value = "content_type: Literal[".toList ++ renderLit value ++ "] = ".toList ++ renderLit value :=
  ⟨rfl, rfl, rfl, rfl, rfl, rfl, rfl⟩

/-- EXACT: the pasted text is one `"…"` literal that evaluates to the original string iff it is `litSafe`. -/
theorem literal_sink_exact (s : Str) : evalStrLit (renderLit s) = some s ↔ litSafe s = true := by
  constructor
  · intro h
    simp only [evalStrLit, renderLit, evalStrLitCp] at h
    cases hr : litRun .norm (s ++ ['"']) with
    | none => simp [hr] at h
    | some cps =>
      simp only [hr, Option.bind_some] at h
      have := cpsToStr_eq_some cps s h
      subst this
      exact safe_of_litRun false s (by simpa using hr)
  · intro h
    have := litRun_of_safe false s h
    simp only [Bool.false_eq_true, if_false, List.nil_append] at this
    simp [evalStrLit, renderLit, evalStrLitCp, this, cpsToStr_strToCps]

/-- Text without `"`, `\`, LF, CR, NUL is rendered correctly by every literal sink. -/
theorem literal_sink_partial (s : Str) (h : plainSafe s = true) : evalStrLit (renderLit s) = some s :=
  (literal_sink_exact s).mpr (litSafe_of_plainSafe s h)

example : plainSafe "in-progress / done (50%) é漢😀 it's #1 {x} $ref\t".toList = true := by decide
example : litSafe "a\\d+\\.b".toList = true ∧ plainSafe "a\\d+\\.b".toList = false := by decide

/-- `a"b` closes the literal early: what follows is code. -/
theorem literal_sink_counterexample_quote : evalStrLit (renderLit "a\"b".toList) = none := by decide
/-- backslash + `n` (two characters in the document) comes back as ONE newline character. -/
theorem literal_sink_counterexample_escape :
    evalStrLit (renderLit "a\\nb".toList) = some "a\nb".toList ∧ "a\nb".toList ≠ "a\\nb".toList := by decide
/-- a trailing backslash escapes the closing quote. -/
theorem literal_sink_counterexample_trailing_backslash : evalStrLit (renderLit "a\\".toList) = none := by decide
/-- a raw newline ends the physical line inside the literal. -/
theorem literal_sink_counterexample_newline : evalStrLit (renderLit "a\nb".toList) = none := by decide
/-- a Windows path: `\u` + non-hex is a syntax error. -/
theorem literal_sink_counterexample_bad_escape : evalStrLit (renderLit "C:\\users".toList) = none := by decide

/-- In endpoint modules every finished method is re-emitted through `write_block` (a `splitlines()` pass):
    a query/header name is safe there only if it ALSO contains none of the characters `str.splitlines`
    treats as line boundaries (`\x0b \x0c \x1c \x1d \x1e \x85 U+2028 U+2029`). -/
theorem endpoint_literal_partial (level : Nat) (s var : Str) (h1 : plainSafe s = true) (h2 : noLineBreak s = true)
    (h3 : noLineBreak var = true) :
    writeBlock level (renderDictKey s var) = spaces (4 * level) ++ renderDictKey s var
      ∧ evalStrLit (renderLit s) = some s :=
  ⟨writeBlock_line level _ (by simp [renderDictKey]) (dictKey_noLineBreak s var h2 h3), literal_sink_partial s h1⟩

example : plainSafe "X-Request-Id é漢 {x}".toList = true ∧ noLineBreak "X-Request-Id é漢 {x}".toList = true := by decide

/-- U+2028 in a parameter name: valid inside the literal as first rendered, but `write_block` cuts the
    literal in two physical lines — the endpoint module no longer parses. -/
theorem endpoint_literal_counterexample :
    evalStrLit (renderLit "a\u2028b".toList) = some "a\u2028b".toList
    ∧ writeBlock 1 (renderDictKey "a\u2028b".toList "a_b".toList)
        = "        \"a\n    b\": DataclassSerializer.serialize(a_b),".toList
    ∧ evalStrLit "\"a".toList = none := by
  decide

/-- A NUL character (JSON `"\u0000"`) pasted raw anywhere — literal, comment or docstring — makes CPython
    reject the whole file ("source code string cannot contain null bytes"); only `json.dumps` escapes it. -/
theorem nul_counterexample :
    evalStrLit (renderLit ['a', cNUL, 'b']) = none
    ∧ isOneCommentLine (renderFieldComment ['a', cNUL, 'b']) = false
    ∧ isOneTripleQuoted (renderAliasDoc ['a', cNUL, 'b']) = false
    ∧ isOneTripleQuoted (renderTagPropDoc ['a', cNUL, 'b']) = false
    ∧ evalStrLit (renderDefaultStr ['a', cNUL, 'b']) = some ['a', cNUL, 'b'] := by
  decide

/-! ## Default sink (`json.dumps`) -/

/-- FULL: Python reads `json.dumps(s)` back as exactly the UTF-16 code units of `s` — for every string. -/
theorem default_sink_codepoints (s : Str) : evalStrLitCp (renderDefaultStr s) = some (utf16Cps s) := by
  simp only [renderDefaultStr, evalStrLitCp]
  exact litRun_json s

/-- EXACT: the default evaluates to the original string iff it has no astral character. -/
theorem default_sink_exact (s : Str) : evalStrLit (renderDefaultStr s) = some s ↔ s.all isBmp = true := by
  simp only [evalStrLit, default_sink_codepoints, Option.bind_some]
  constructor
  · intro h
    by_cases hb : s.all isBmp = true
    · exact hb
    · have : s.all isBmp = false := by simpa using hb
      rw [cpsToStr_utf16_astral s this] at h
      cases h
  · intro h
    rw [utf16Cps_bmp s h, cpsToStr_strToCps]

/-- Within the BMP — quotes, backslashes, control characters, line ends, NUL included — defaults are exact. -/
theorem default_sink_partial (s : Str) (h : s.all isBmp = true) : evalStrLit (renderDefaultStr s) = some s :=
  (default_sink_exact s).mpr h

example : ("a\"b\\n\n\r\x00 \"\"\" é漢 \\u0041".toList).all isBmp = true := by decide

/-- 😀 comes back as the two lone surrogates U+D83D U+DE00 (`ensure_ascii=True` writes a surrogate pair). -/
theorem default_sink_counterexample :
    evalStrLitCp (renderDefaultStr "😀".toList) = some [0xd83d, 0xde00] ∧ evalStrLit (renderDefaultStr "😀".toList) = none := by
  decide

/-! ## Comment sink -/

theorem field_line_shape (name typ desc : Str) (d : Option Str) (h : desc ≠ []) :
    renderFieldLine name typ d desc
      = name ++ ": ".toList ++ typ ++ (match d with | some x => " = ".toList ++ x | none => []) ++ ' ' :: ' ' :: renderFieldComment desc := by
  cases desc with
  | nil => exact absurd rfl h
  | cons c cs => cases d <;> simp [renderFieldLine]

/-- EXACT: the field comment is one comment token iff the description has no CR and no NUL (only `\n` is replaced). -/
theorem comment_sink_exact (s : Str) : isOneCommentLine (renderFieldComment s) = true ↔ noCrNul s = true := by
  rw [comment_iff]

theorem comment_sink_partial (s : Str) (h : noCrNul s = true) : isOneCommentLine (renderFieldComment s) = true :=
  (comment_sink_exact s).mpr h

example : noCrNul "line one\nline \"two\" \\ \x0c\u2028 # x".toList = true := by decide

/-- A carriage return ends the comment line: the rest of the description is parsed as code. -/
theorem comment_sink_counterexample : isOneCommentLine (renderFieldComment "a\rimport os".toList) = false := by decide

/-! ## Docstring sinks -/

/-- EXACT for the one sink that escapes (type-alias docstring): one literal iff no NUL and the run of
    `"` at the END of the description has a length divisible by 3. -/
theorem alias_doc_exact (s : Str) :
    isOneTripleQuoted (renderAliasDoc s) = true ↔ (noNul s = true ∧ quoteRun 0 s = 0) := by
  rw [aliasDoc_iff]
  simp

/-- In particular: any description without NUL that does not END in `"` — backslashes, `"""` inside,
    newlines, trailing backslash are all fine. -/
theorem alias_doc_partial (s : Str) (h1 : noNul s = true) (h2 : s.getLast? ≠ some '"') :
    isOneTripleQuoted (renderAliasDoc s) = true := by
  rw [alias_doc_exact]
  refine ⟨h1, ?_⟩
  cases s with
  | nil => rfl
  | cons c cs => exact quoteRun_of_not_quote_end _ 0 h2 (by simp)

example : noNul "a \"\"\" b \\ \"quoted\" \\".toList = true ∧ ("a \"\"\" b \\ \"quoted\" \\".toList).getLast? ≠ some '"' := by
  decide

/-- A description ending in `"` gives `""""`: the literal ends one character early. -/
theorem alias_doc_counterexample : isOneTripleQuoted (renderAliasDoc "say \"hi\"".toList) = false := by decide

/-- One-line tag docstrings (`"""Client for '{tag}' endpoints."""`): clean tags only. -/
theorem tag_doc_partial (tag : Str) (h : docClean tag = true) :
    isOneTripleQuoted (renderTagPropDoc tag) = true ∧ isOneTripleQuoted (renderTagClassDoc tag) = true := by
  rw [tagPropDoc_eq, tagClassDoc_eq]
  exact ⟨oneLine_inert _ _ tag (by decide) (by decide) h, oneLine_inert _ _ tag (by decide) (by decide) h⟩

example : docClean "pets & owners: it's 100% 'fine' #1\n{x} é漢😀".toList = true := by decide

theorem tag_doc_counterexample_triple_quote :
    isOneTripleQuoted (renderTagPropDoc "x\"\"\"\nimport os\n\"\"\"".toList) = false := by decide
/-- a Windows path in a tag: `\U` + non-hex — the file does not parse. -/
theorem tag_doc_counterexample_bad_escape : isOneTripleQuoted (renderTagClassDoc "C:\\Users".toList) = false := by decide

/-- Class / method docstrings written by `DocumentationWriter` (summary, description, Args, Returns,
    Raises), re-indented by `CodeWriter`: one literal for clean text, for every well-behaved textwrap. -/
theorem doc_sink_partial (W : Wrap) (hW : WrapSafe W) (d : DocBlock) (hd : d.Clean) (level : Nat) :
    isOneTripleQuoted (dropIndent (renderMethodDoc W level d)) = true :=
  emitDoc_inert W hW d hd level

theorem dataclass_doc_partial (W : Wrap) (hW : WrapSafe W) (className desc : Str) (fields : List (Str × Str × Str))
    (hn : docClean className = true) (hd : docClean desc = true)
    (hf : ∀ f ∈ fields, docClean f.1 = true ∧ docClean f.2.1 = true ∧ docClean f.2.2 = true) :
    isOneTripleQuoted (dropIndent (renderDataclassDoc W className desc fields)) = true :=
  emitDoc_inert W hW _ (dataclassBlock_clean className desc fields hn hd hf) 1

/-- Enum VALUES also end up in the class docstring (as the `Args:` names). -/
theorem enum_doc_partial (W : Wrap) (hW : WrapSafe W) (enumName desc : Str) (members : List (Str × Str))
    (hn : docClean enumName = true) (hd : docClean desc = true)
    (hm : ∀ m ∈ members, docClean m.1 = true ∧ docClean m.2 = true) :
    isOneTripleQuoted (dropIndent (renderEnumDoc W enumName desc "str".toList members)) = true :=
  emitDoc_inert W hW _ (enumBlock_clean enumName desc "str".toList members hn hd (by decide) hm) 1

/-- What `textwrap` does to a short text without blanks: one line, unchanged. -/
def wrapShort : Wrap := fun _ _ t => [t]

example : WrapSafe wrapShort := by
  intro w k t l hl c hc
  simp only [wrapShort, List.mem_singleton] at hl
  subst hl
  exact Or.inl hc

example : DedentSafe (fun t => t) := fun _ _ h => h

example : (⟨"List pets".toList, "it's 100% ok\n#1".toList, [⟨"limit".toList, some "int | None".toList, "max".toList⟩],
    some ("List[Pet]".toList, "pets".toList), [("HTTPError".toList, "404: none".toList)]⟩ : DocBlock).Clean := by
  refine ⟨by decide, by decide, ?_, ?_, ?_⟩
  · intro a ha
    simp only [List.mem_singleton] at ha
    subst ha
    exact ⟨by decide, by intro t ht; cases ht; decide, by decide⟩
  · intro r hr; cases hr; exact ⟨by decide, by decide⟩
  · intro r hr
    simp only [List.mem_singleton] at hr
    subst hr
    exact ⟨by decide, by decide⟩

/-- `"""` in a schema description ends the class docstring early (the rest is parsed as code). -/
theorem doc_sink_counterexample_triple_quote :
    isOneTripleQuoted (dropIndent (renderDataclassDoc wrapShort "User".toList "a\"\"\"b".toList [])) = false := by
  decide
/-- a Windows path in an operation summary. -/
theorem doc_sink_counterexample_bad_escape :
    isOneTripleQuoted (dropIndent (renderMethodDoc wrapShort 2 ⟨"C:\\new\\x".toList, [], [], none, []⟩)) = false := by
  decide
/-- an enum VALUE containing `"""` breaks the enum's docstring as well as its member line. -/
theorem enum_doc_counterexample :
    isOneTripleQuoted (dropIndent (renderEnumDoc wrapShort "E".toList "d".toList "str".toList [("A".toList, "\"\"\"".toList)])) = false := by
  decide

/-- The `APIClient` docstring: title, version, description and tag names. -/
theorem client_doc_partial (W : Wrap) (hW : WrapSafe W) (D : Dedent) (hD : DedentSafe D)
    (title version desc : Str) (tags : List (Str × Str × Str))
    (h1 : docClean title = true) (h2 : docClean version = true) (h3 : docClean desc = true)
    (ht : ∀ t ∈ tags, docClean t.1 = true ∧ docClean t.2.1 = true ∧ docClean t.2.2 = true) :
    isOneTripleQuoted (dropIndent (renderClientDoc W D title version desc tags)) = true :=
  clientDoc_inert W hW D hD title version desc tags h1 h2 h3 ht

/-- The description is cleaned (`"""` → `'`, `\` → `\\`), the TITLE is not. -/
theorem client_doc_counterexample_title :
    isOneTripleQuoted (dropIndent (renderClientDoc wrapShort (fun t => t) "My \"\"\"API\"\"\"".toList "1.0".toList [] [])) = false := by
  decide
/-- … whereas the same text in the description is harmless. -/
theorem client_doc_description_example :
    isOneTripleQuoted (dropIndent (renderClientDoc wrapShort (fun t => t) "My API".toList "1.0".toList "a \"\"\"b\"\"\" C:\\users\\x".toList [])) = true := by
  decide +kernel

end Pog.C15
