import Pog.Lemmas.PyLex
import Pog.Lemmas.Stream
import Pog.Model.Sinks
/-
  Lemmas about M-sinks (`Pog.Model.Sinks`) used by `Pog.Props.C15`.
-/
namespace Pog

/-! ## Unescaped literal sinks: `"` + s + `"` evaluates to `s` exactly for `litSafe s` -/

theorem litRun_of_safe (b : Bool) (s : Str) (h : litSafeRun b s = true) :
    litRun (if b then .bs else .norm) (s ++ ['"']) = some ((if b then [92] else []) ++ strToCps s) := by
  induction s generalizing b with
  | nil =>
    cases b with
    | true => simp [litSafeRun] at h
    | false => simp [litRun, litStep, litNorm, strToCps]
  | cons c cs ih =>
    cases b with
    | false =>
      simp only [litSafeRun] at h
      split at h
      · cases h
      · rename_i hc
        simp only [Bool.or_eq_true, not_or, Bool.not_eq_true] at hc
        obtain ⟨⟨⟨h1, h2⟩, h3⟩, h4⟩ := hc
        by_cases hb : (c == '\\') = true
        · have hcb : c = '\\' := by simpa using hb
          have := ih true (by simpa [hb] using h)
          simp only [if_true] at this
          simp [litRun, litStep, litNorm, h1, hb, this, strToCps, hcb]
        · have hb' : (c == '\\') = false := by simpa using hb
          have := ih false (by simpa [hb'] using h)
          simp only [Bool.false_eq_true, if_false] at this
          simp [litRun, litStep, litNorm, h1, h2, h3, h4, hb', this, strToCps]
    | true =>
      simp only [litSafeRun, Bool.and_eq_true, Bool.not_eq_true'] at h
      have := ih false h.2
      simp only [Bool.false_eq_true, if_false] at this
      simp [litRun, litStep, escStep_bs_unknown c h.1, this, strToCps]

/-- Strict bound for a RECOGNISED escape: it yields at most one code point for two characters. -/
def escStrict : EscOut → Prop
  | .err => True
  | .done out => (out.length : Int) ≤ 1
  | .cont st' => pot st' ≤ 1
  | .redo _ => False

theorem escStep_bs_recognised (c : Char) (h : isRecognisedEsc c = true) : escStrict (escStep .bs c) := by
  by_cases h1 : (c == '\n') = true
  · simp [escStep, escStrict, pot, h1]
  by_cases h2 : (c == '\r') = true
  · simp [escStep, escStrict, pot, h1, h2]
  by_cases h3 : (c == '\\') = true
  · simp [escStep, escStrict, pot, h1, h2, h3]
  by_cases h4 : (c == '\'') = true
  · simp [escStep, escStrict, pot, h1, h2, h3, h4]
  by_cases h5 : (c == '"') = true
  · simp [escStep, escStrict, pot, h1, h2, h3, h4, h5]
  by_cases h6 : (c == 'a') = true
  · simp [escStep, escStrict, pot, h1, h2, h3, h4, h5, h6]
  by_cases h7 : (c == 'b') = true
  · simp [escStep, escStrict, pot, h1, h2, h3, h4, h5, h6, h7]
  by_cases h8 : (c == 'f') = true
  · simp [escStep, escStrict, pot, h1, h2, h3, h4, h5, h6, h7, h8]
  by_cases h9 : (c == 'n') = true
  · simp [escStep, escStrict, pot, h1, h2, h3, h4, h5, h6, h7, h8, h9]
  by_cases h10 : (c == 'r') = true
  · simp [escStep, escStrict, pot, h1, h2, h3, h4, h5, h6, h7, h8, h9, h10]
  by_cases h11 : (c == 't') = true
  · simp [escStep, escStrict, pot, h1, h2, h3, h4, h5, h6, h7, h8, h9, h10, h11]
  by_cases h12 : (c == 'v') = true
  · simp [escStep, escStrict, pot, h1, h2, h3, h4, h5, h6, h7, h8, h9, h10, h11, h12]
  by_cases h13 : (isOctC c) = true
  · simp [escStep, escStrict, pot, h1, h2, h3, h4, h5, h6, h7, h8, h9, h10, h11, h12, h13]
  by_cases h14 : (c == 'x') = true
  · simp [escStep, escStrict, pot, h1, h2, h3, h4, h5, h6, h7, h8, h9, h10, h11, h12, h13, h14]
  by_cases h15 : (c == 'u') = true
  · simp [escStep, escStrict, pot, h1, h2, h3, h4, h5, h6, h7, h8, h9, h10, h11, h12, h13, h14, h15]
  by_cases h16 : (c == 'U') = true
  · simp [escStep, escStrict, pot, h1, h2, h3, h4, h5, h6, h7, h8, h9, h10, h11, h12, h13, h14, h15, h16]
  by_cases h17 : (c == 'N') = true
  · simp [escStep, escStrict, pot, h1, h2, h3, h4, h5, h6, h7, h8, h9, h10, h11, h12, h13, h14, h15, h16, h17]
  by_cases h18 : (c == cNUL) = true
  · simp [escStep, escStrict, pot, h1, h2, h3, h4, h5, h6, h7, h8, h9, h10, h11, h12, h13, h14, h15, h16, h17, h18]
  exfalso
  have : isRecognisedEsc c = false := by simp [isRecognisedEsc, h1, h2, h3, h4, h5, h6, h7, h8, h9, h10, h11, h12, h13, h14, h15, h16, h17, h18]
  simp [this] at h

theorem litStep_bs_recognised (c : Char) (h : isRecognisedEsc c = true) (st' : LexSt) (out : CpStr)
    (hs : litStep .bs c = .next st' out) : (out.length : Int) + pot st' ≤ 1 := by
  have hp := escStep_bs_recognised c h
  have h0 : pot .norm = 0 := rfl
  simp only [litStep] at hs
  split at hs
  · cases hs
  · rename_i o he
    rw [he] at hp
    cases hs
    simp only [escStrict] at hp
    omega
  · rename_i s2 he
    rw [he] at hp
    cases hs
    simp only [escStrict] at hp
    simp only [List.length_nil]
    omega
  · rename_i o he
    rw [he] at hp
    simp [escStrict] at hp

theorem safe_of_litRun (b : Bool) (s : Str)
    (h : litRun (if b then .bs else .norm) (s ++ ['"']) = some ((if b then [92] else []) ++ strToCps s)) :
    litSafeRun b s = true := by
  induction s generalizing b with
  | nil =>
    cases b with
    | false => rfl
    | true => simp [litRun, litStep, escStep] at h
  | cons c cs ih =>
    cases b with
    | false =>
      simp only [Bool.false_eq_true, if_false, List.nil_append, List.cons_append, litRun, litStep] at h
      unfold litNorm at h
      by_cases h1 : (c == '"') = true
      · simp [h1] at h
      · by_cases hb : (c == '\\') = true
        · have hcb : c = '\\' := by simpa using hb
          simp only [h1, hb, Bool.false_eq_true, if_false, if_true, strToCps, List.map_cons] at h
          have h' : litRun .bs (cs ++ ['"']) = some ([92] ++ strToCps cs) := by
            cases hr : litRun .bs (cs ++ ['"']) with
            | none => simp [hr] at h
            | some r => simpa [hr, hcb, strToCps] using h
          have := ih true (by simpa using h')
          subst hcb
          simpa [litSafeRun, cNUL] using this
        · by_cases h3 : (c == '\n' || c == '\r' || c == cNUL) = true
          · simp [h1, hb, h3] at h
          · simp only [h1, hb, h3, Bool.false_eq_true, if_false, strToCps, List.map_cons] at h
            have h' : litRun .norm (cs ++ ['"']) = some (strToCps cs) := by
              cases hr : litRun .norm (cs ++ ['"']) with
              | none => simp [hr] at h
              | some r => simpa [hr, strToCps] using h
            have := ih false (by simpa using h')
            simp only [Bool.or_eq_true, not_or, Bool.not_eq_true] at h3
            have h1' : (c == '"') = false := by simpa using h1
            have hb' : (c == '\\') = false := by simpa using hb
            simp [litSafeRun, h1', h3.1.1, h3.1.2, h3.2, hb', this]
    | true =>
      simp only [if_true, List.cons_append] at h
      by_cases hr : isRecognisedEsc c = false
      · simp only [litRun, litStep, escStep_bs_unknown c hr, strToCps, List.map_cons] at h
        have h' : litRun .norm (cs ++ ['"']) = some (strToCps cs) := by
          cases hr' : litRun .norm (cs ++ ['"']) with
          | none => simp [hr'] at h
          | some r => simpa [hr', strToCps] using h
        have := ih false (by simpa using h')
        simp [litSafeRun, hr, this]
      · exfalso
        have hr' : isRecognisedEsc c = true := by simpa using hr
        simp only [litRun] at h
        split at h
        · cases h
        · rename_i out hs
          -- `close` from state `bs` would need a `redo`, which a recognised escape never is
          have hp := escStep_bs_recognised c hr'
          simp only [litStep] at hs
          split at hs
          · cases hs
          · cases hs
          · cases hs
          · rename_i o he
            rw [he] at hp
            simp [escStrict] at hp
        · rename_i st' out hs
          cases hrun : litRun st' (cs ++ ['"']) with
          | none => simp [hrun] at h
          | some r' =>
            simp only [hrun, Option.map_some, Option.some.injEq] at h
            have hl := litRun_length st' _ _ hrun
            have hstep := litStep_bs_recognised c hr' st' out hs
            have hlen := congrArg List.length h
            simp only [List.length_append, List.length_cons, List.length_nil, strToCps_length] at hlen hl
            omega

/-! ## `json.dumps` read back by Python -/

theorem hexDigit_spec : ∀ d : Fin 16, isHexC (hexDigitLower d.val) = true ∧ hexVal (hexDigitLower d.val) = d.val := by
  decide

theorem hexDigit_isHex (d : Nat) (h : d < 16) : isHexC (hexDigitLower d) = true := (hexDigit_spec ⟨d, h⟩).1
theorem hexDigit_val (d : Nat) (h : d < 16) : hexVal (hexDigitLower d) = d := (hexDigit_spec ⟨d, h⟩).2

theorem litRun_hex_cont (need v d : Nat) (hd : d < 16) (hn : 2 ≤ need) (rest : Str) :
    litRun (.hex need v) (hexDigitLower d :: rest) = litRun (.hex (need - 1) (v * 16 + d)) rest := by
  have : ¬ need ≤ 1 := by omega
  simp [litRun, litStep, escStep, hexDigit_isHex d hd, hexDigit_val d hd, this]

theorem litRun_hex_last (v d : Nat) (hd : d < 16) (hv : v * 16 + d ≤ 1114111) (rest : Str) :
    litRun (.hex 1 v) (hexDigitLower d :: rest) = (litRun .norm rest).map ([v * 16 + d] ++ ·) := by
  simp [litRun, litStep, escStep, hexDigit_isHex d hd, hexDigit_val d hd, hv]

/-- `\uXXXX` (already past `\u`): four hex digits give back the 16-bit value. -/
theorem litRun_hex4 (n : Nat) (hn : n < 65536) (rest : Str) :
    litRun (.hex 4 0) (hex4 n ++ rest) = (litRun .norm rest).map ([n] ++ ·) := by
  have h3 : n / 4096 % 16 < 16 := by omega
  have h2 : n / 256 % 16 < 16 := by omega
  have h1 : n / 16 % 16 < 16 := by omega
  have h0 : n % 16 < 16 := by omega
  have hv : (((0 * 16 + n / 4096 % 16) * 16 + n / 256 % 16) * 16 + n / 16 % 16) * 16 + n % 16 = n := by omega
  simp only [hex4, List.cons_append, List.nil_append]
  rw [litRun_hex_cont 4 _ _ h3 (by omega), litRun_hex_cont (4 - 1) _ _ h2 (by omega),
    litRun_hex_cont (4 - 1 - 1) _ _ h1 (by omega)]
  show litRun (.hex 1 _) _ = _
  rw [litRun_hex_last _ _ h0 (by omega), hv]
  rfl

theorem litRun_u4 (n : Nat) (hn : n < 65536) (rest : Str) :
    litRun .norm ('\\' :: 'u' :: (hex4 n ++ rest)) = (litRun .norm rest).map ([n] ++ ·) := by
  have : litRun .norm ('\\' :: 'u' :: (hex4 n ++ rest)) = litRun (.hex 4 0) (hex4 n ++ rest) := by
    simp [litRun, litStep, litNorm, escStep, isOctC]
  rw [this, litRun_hex4 n hn]

def cps16 (c : Char) : CpStr :=
  if c.toNat < 0x10000 then [c.toNat]
  else [0xd800 + (c.toNat - 0x10000) / 1024, 0xdc00 + (c.toNat - 0x10000) % 1024]

theorem utf16Cps_cons (c : Char) (cs : Str) : utf16Cps (c :: cs) = cps16 c ++ utf16Cps cs := by
  simp only [utf16Cps, cps16]
  split <;> simp

theorem char_lt (c : Char) : c.toNat < 0x110000 := by
  have h : c.val.toNat < 0xd800 ∨ (0xdfff < c.val.toNat ∧ c.val.toNat < 0x110000) := c.valid
  show c.val.toNat < _
  omega

theorem litRun_jsonEsc (c : Char) (rest : Str) :
    litRun .norm (jsonEscChar c ++ rest) = (litRun .norm rest).map (cps16 c ++ ·) := by
  unfold jsonEscChar
  split
  · rename_i h; have hc : c = '"' := by simpa using h
    subst hc; simp [litRun, litStep, litNorm, escStep, cps16]; try rfl
  split
  · rename_i h; have hc : c = '\\' := by simpa using h
    subst hc; simp [litRun, litStep, litNorm, escStep, cps16]; try rfl
  split
  · rename_i h; have hc : c = '\n' := by simpa using h
    subst hc; simp [litRun, litStep, litNorm, escStep, cps16]; try rfl
  split
  · rename_i h; have hc : c = '\r' := by simpa using h
    subst hc; simp [litRun, litStep, litNorm, escStep, cps16]; try rfl
  split
  · rename_i h; have hc : c = '\t' := by simpa using h
    subst hc; simp [litRun, litStep, litNorm, escStep, cps16]; try rfl
  split
  · rename_i h; have hn : c.toNat = 12 := by simpa using h
    have hc : c = Char.ofNat 12 := by rw [← hn, Char.ofNat_toNat]
    subst hc; simp [litRun, litStep, litNorm, escStep, cps16]; try rfl
  split
  · rename_i h; have hn : c.toNat = 8 := by simpa using h
    have hc : c = Char.ofNat 8 := by rw [← hn, Char.ofNat_toNat]
    subst hc; simp [litRun, litStep, litNorm, escStep, cps16]; try rfl
  split
  · rename_i h1 h2 h3 h4 h5 h6 h7 h
    simp only [Bool.and_eq_true, decide_eq_true_eq] at h
    have hlt : c.toNat < 65536 := by omega
    have e1 : (c == '"') = false := by simpa using h1
    have e2 : (c == '\\') = false := by simpa using h2
    have e3 : (c == '\n') = false := by simpa using h3
    have e4 : (c == '\r') = false := by simpa using h4
    have e5 : (c == cNUL) = false := by
      simp only [beq_eq_false_iff_ne, ne_eq]
      intro hc; rw [hc] at h; simp [cNUL] at h
    simp [litRun, litStep, litNorm, e1, e2, e3, e4, e5, cps16, hlt]
  split
  · rename_i h
    have hlt : c.toNat < 65536 := by simpa using h
    simp only [List.cons_append]
    rw [litRun_u4 _ hlt]
    simp [cps16, hlt]
  · rename_i h
    have hge : ¬ c.toNat < 65536 := by simpa using h
    have hlt := char_lt c
    have ha : 0xd800 + (c.toNat - 0x10000) / 1024 < 65536 := by omega
    have hb : 0xdc00 + (c.toNat - 0x10000) % 1024 < 65536 := by omega
    simp only [List.cons_append, List.append_assoc]
    rw [litRun_u4 _ ha, litRun_u4 _ hb]
    simp only [cps16, hge, if_false, Option.map_map]
    congr 1

theorem litRun_json (s : Str) : litRun .norm (s.flatMap jsonEscChar ++ ['"']) = some (utf16Cps s) := by
  induction s with
  | nil => simp [litRun, litStep, litNorm, utf16Cps]
  | cons c cs ih =>
    rw [List.flatMap_cons, List.append_assoc, litRun_jsonEsc, ih, utf16Cps_cons]
    rfl

def isBmp (c : Char) : Bool := c.toNat < 0x10000

theorem utf16Cps_bmp (s : Str) (h : s.all isBmp = true) : utf16Cps s = strToCps s := by
  induction s with
  | nil => rfl
  | cons c cs ih =>
    simp only [List.all_cons, Bool.and_eq_true, isBmp, decide_eq_true_eq] at h
    simp [utf16Cps, h.1, strToCps]
    simpa [strToCps] using ih (by simpa [isBmp] using h.2)

theorem cpsToStr_utf16_astral (s : Str) (h : s.all isBmp = false) : cpsToStr (utf16Cps s) = none := by
  induction s with
  | nil => simp at h
  | cons c cs ih =>
    by_cases hc : c.toNat < 0x10000
    · have : cs.all isBmp = false := by simpa [isBmp, hc] using h
      have hv : c.toNat.isValidChar := c.valid
      simp [utf16Cps, hc, cpsToStr, hv, ih this]
    · have hlt := char_lt c
      have hnv : ¬ (0xd800 + (c.toNat - 0x10000) / 1024).isValidChar := by
        simp only [Nat.isValidChar]; omega
      simp [utf16Cps, hc, cpsToStr, hnv]

/-! ## Comment sink -/

def noCrNul (s : Str) : Bool := s.all (fun c => !(c == '\r' || c == cNUL))

theorem commentBody_replaceNl (s : Str) : commentBody (replaceNl s) = noCrNul s := by
  induction s with
  | nil => rfl
  | cons c cs ih =>
    simp only [commentBody, noCrNul, replaceNl, List.map_cons, List.all_cons] at ih ⊢
    rw [ih]
    by_cases h : (c == '\n') = true
    · have hc : c = '\n' := by simpa using h
      subst hc
      simp [cNUL]
    · have h' : (c == '\n') = false := by simpa using h
      simp [h']

theorem comment_iff (s : Str) : isOneCommentLine (renderFieldComment s) = noCrNul s := by
  rw [← commentBody_replaceNl]
  simp [isOneCommentLine, renderFieldComment, commentBody, cNUL]

/-! ## Triple-quoted docstrings -/

/-- Characters that can never change how a `"""…"""` literal is delimited or decoded. -/
def docChar (c : Char) : Bool := !(c == '"' || c == '\\' || c == cNUL)
def docClean (s : Str) : Bool := s.all docChar

theorem tqRun_docChar (c : Char) (h : docChar c = true) (q : Nat) (cs : Str) :
    tqRun .norm q (c :: cs) = tqRun .norm 0 cs := by
  simp only [docChar, Bool.not_eq_true', Bool.or_eq_false_iff] at h
  simp [tqRun, tqStep, tqNorm, h.1.1, h.1.2, h.2]

theorem tqRun_clean (body : Str) (h : docClean body = true) (rest : Str) :
    tqRun .norm 0 (body ++ rest) = tqRun .norm 0 rest := by
  induction body with
  | nil => rfl
  | cons c cs ih =>
    simp only [docClean, List.all_cons, Bool.and_eq_true] at h
    rw [List.cons_append, tqRun_docChar c h.1, ih h.2]

theorem tqRun_tq3 : tqRun .norm 0 tq3 = true := by decide

theorem isOneTripleQuoted_tq3 (x : Str) : isOneTripleQuoted (tq3 ++ x) = tqRun .norm 0 x := rfl

/-- A body without `"`, `\` and NUL between `"""` and `"""` is one literal. -/
theorem tq_of_clean (body : Str) (h : docClean body = true) :
    isOneTripleQuoted (tq3 ++ (body ++ tq3)) = true := by
  rw [isOneTripleQuoted_tq3, tqRun_clean body h, tqRun_tq3]

/-! ### The alias docstring: its own escaping, exactly -/

/-- Length mod 3 of the run of `"` at the END of the text read so far (`q` = value before `s`). -/
def quoteRun (q : Nat) : Str → Nat
  | [] => q
  | c :: cs => quoteRun (if c == '"' then (if q ≥ 2 then 0 else q + 1) else 0) cs

def noNul (s : Str) : Bool := s.all (fun c => !(c == cNUL))

def esc3 : Str := ['\\', '"', '\\', '"', '\\', '"']

theorem replace1_cons (ch : Char) (rep : Str) (c : Char) (cs : Str) :
    replace1 ch rep (c :: cs) = (if c == ch then rep else [c]) ++ replace1 ch rep cs := by
  simp [replace1, List.flatMap_cons]

theorem tqRun_quotes_bsbs (q : Nat) (hq : q ≤ 2) (z : Str) :
    tqRun .norm 0 (List.replicate q '"' ++ '\\' :: '\\' :: z) = tqRun .norm 0 z := by
  have : q = 0 ∨ q = 1 ∨ q = 2 := by omega
  rcases this with rfl | rfl | rfl <;> simp [tqRun, tqStep, tqNorm, escStep, List.replicate]

theorem tqRun_esc3 (z : Str) : tqRun .norm 0 (esc3 ++ z) = tqRun .norm 0 z := by
  simp [esc3, tqRun, tqStep, tqNorm, escStep]

theorem tqRun_quotes_char (q : Nat) (hq : q ≤ 2) (c : Char) (h1 : (c == '"') = false) (h2 : (c == '\\') = false)
    (z : Str) :
    tqRun .norm 0 (List.replicate q '"' ++ c :: z) = (!(c == cNUL) && tqRun .norm 0 z) := by
  have : q = 0 ∨ q = 1 ∨ q = 2 := by omega
  by_cases h3 : (c == cNUL) = true
  · rcases this with rfl | rfl | rfl <;> simp [tqRun, tqStep, tqNorm, List.replicate, h1, h2, h3]
  · have h3' : (c == cNUL) = false := by simpa using h3
    rcases this with rfl | rfl | rfl <;> simp [tqRun, tqStep, tqNorm, List.replicate, h1, h2, h3']

theorem tqRun_quotes_end (q : Nat) (hq : q ≤ 2) :
    tqRun .norm 0 (List.replicate q '"' ++ tq3) = (q == 0) := by
  have : q = 0 ∨ q = 1 ∨ q = 2 := by omega
  rcases this with rfl | rfl | rfl <;> decide

theorem tqRun_alias (q : Nat) (hq : q ≤ 2) (s : Str) :
    tqRun .norm 0 (replace3Run '"' esc3 q (replace1 '\\' ['\\', '\\'] s) ++ tq3)
      = (noNul s && quoteRun q s == 0) := by
  induction s generalizing q with
  | nil => simp [replace1, replace3Run, tqRun_quotes_end q hq, noNul, quoteRun]
  | cons c cs ih =>
    rw [replace1_cons]
    by_cases hb : (c == '\\') = true
    · have hc : c = '\\' := by simpa using hb
      subst hc
      have e : replace3Run '"' esc3 q (['\\', '\\'] ++ replace1 '\\' ['\\', '\\'] cs)
          = List.replicate q '"' ++ '\\' :: '\\' :: replace3Run '"' esc3 0 (replace1 '\\' ['\\', '\\'] cs) := by
        simp [replace3Run]
      simp only [if_true, beq_self_eq_true] 
      rw [e, List.append_assoc, List.cons_append, List.cons_append, tqRun_quotes_bsbs q hq, ih 0 (by omega)]
      simp [noNul, quoteRun, cNUL]
    · have hb' : (c == '\\') = false := by simpa using hb
      simp only [hb', Bool.false_eq_true, if_false, List.cons_append, List.nil_append]
      by_cases hq' : (c == '"') = true
      · have hc : c = '"' := by simpa using hq'
        subst hc
        by_cases h2 : q ≥ 2
        · have e : replace3Run '"' esc3 q ('"' :: replace1 '\\' ['\\', '\\'] cs)
              = esc3 ++ replace3Run '"' esc3 0 (replace1 '\\' ['\\', '\\'] cs) := by
            simp [replace3Run, h2]
          rw [e, List.append_assoc, tqRun_esc3, ih 0 (by omega)]
          simp [noNul, quoteRun, h2, cNUL]
        · have e : replace3Run '"' esc3 q ('"' :: replace1 '\\' ['\\', '\\'] cs)
              = replace3Run '"' esc3 (q + 1) (replace1 '\\' ['\\', '\\'] cs) := by
            simp [replace3Run, h2]
          rw [e, ih (q + 1) (by omega)]
          simp [noNul, quoteRun, h2, cNUL]
      · have hq'' : (c == '"') = false := by simpa using hq'
        have e : replace3Run '"' esc3 q (c :: replace1 '\\' ['\\', '\\'] cs)
            = List.replicate q '"' ++ c :: replace3Run '"' esc3 0 (replace1 '\\' ['\\', '\\'] cs) := by
          simp [replace3Run, hq'']
        rw [e, List.append_assoc, List.cons_append, tqRun_quotes_char q hq c hq'' hb', ih 0 (by omega)]
        simp [noNul, quoteRun, hq'', Bool.and_assoc]

theorem aliasPrefix_eq : "\"\"\"Alias for ".toList = tq3 ++ "Alias for ".toList := by decide
theorem tq3_eq : "\"\"\"".toList = tq3 := by decide

theorem aliasDoc_eq (s : Str) :
    renderAliasDoc s = tq3 ++ ("Alias for ".toList ++ (replace3Run '"' esc3 0 (replace1 '\\' ['\\', '\\'] s) ++ tq3)) := by
  unfold renderAliasDoc aliasEscape replace3
  rw [aliasPrefix_eq, tq3_eq]
  simp only [List.append_assoc]
  rfl

/-- The alias docstring is one literal iff the text has no NUL and the run of `"` at its end has a
    length divisible by 3 (those are swallowed by the `"""` → `\"\"\"` replacement). -/
theorem aliasDoc_iff (s : Str) : isOneTripleQuoted (renderAliasDoc s) = (noNul s && quoteRun 0 s == 0) := by
  rw [aliasDoc_eq, isOneTripleQuoted_tq3, tqRun_clean _ (by decide), tqRun_alias 0 (by omega)]

theorem quoteRun_of_not_quote_end (s : Str) (q : Nat) (h : s.getLast? ≠ some '"') (hs : s ≠ []) : quoteRun q s = 0 := by
  induction s generalizing q with
  | nil => exact absurd rfl hs
  | cons c cs ih =>
    cases cs with
    | nil =>
      have : (c == '"') = false := by
        simp only [List.getLast?_singleton, ne_eq, Option.some.injEq] at h
        simpa using h
      simp [quoteRun, this]
    | cons d ds =>
      simp only [quoteRun]
      apply ih
      · simpa [List.getLast?_cons_cons] using h
      · simp

end Pog
