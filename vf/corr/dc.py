#!/venv/bin/python
"""Dc — correspondence and oracle for the Lean model `Pog.Dc` (DataclassGenerator.generate: fields, order, defaults).

run():    seeded random REAL `IRSchema` objects -> the REAL `DataclassGenerator(renderer, all_schemas).generate(schema,
          base_name, ctx)` on a fresh `RenderContext`, with a spy on `renderer.render_dataclass` (captures `fields`,
          `field_mappings` and the returned text) and on `type_service.resolve_schema_type` (the python type text of every
          property is handed to the model as an opaque string).  Compared with the compiled driver (`dcGenerate`):
          raised exception class / shape / the `fields_data` tuples (name, type, default_expr, description) in order /
          `field_mappings` items in dict order / the order of the field statements of the emitted class body (parsed
          with `ast`; text slicing when the emitted module is not valid Python) / the text of every field line / the
          value type of a JSON wrapper.  Also `dcEnumDefaultMember` vs `str.upper().replace().replace()` and
          `dcSortKeys` vs `sorted(key=...)`.
oracle(): the properties themselves on the real generator, no Lean: defaults last (1), no default calls a name an earlier
          field rebound (1b: a property `field` before a `field(default_factory=…)` default), one field per property (2),
          required iff no default (3), `ast.literal_eval` of every scalar default (4), the member named by an enum default
          exists in the enum the REAL `EnumGenerator` emits and carries the default's value (5), output independent of the
          order of `properties` (6), `generate` does not raise on a well-formed schema (7).
Importable: no work and no `pyopenapi_gen` import at module import time.
"""
from __future__ import annotations

import ast
import contextlib
import json
import math
import os
import random
import re
import shutil
import subprocess
import sys
import tempfile

HERE = os.path.dirname(os.path.abspath(__file__))
DEFAULT_DRIVER = os.path.join(HERE, ".lake", "build", "bin", "driver")

RULE = (
    "schemas: 0-8 properties with keys from a pool of colliding sanitised names (userId/user_id/user-id/UserID), keywords, "
    "leading digits, non-ASCII, empty/underscore-only names and the names default_factory/defaultFactory; `required` = random "
    "subset of the keys plus unknown names; each property is a primitive with no / scalar / list / dict default (strings with "
    "quotes, backslashes, newlines, NUL, astral characters; bool; small, negative and huge ints; floats incl. inf/nan), an "
    "array, an anonymous object (also with any_of / a name / an empty-string name), a named reference, a reference to a "
    "string or integer enum schema with a default (N/A, in-progress, 2x, ok, in progress!, if, a b, ...), or an anyOf; "
    "descriptions none/empty/one-line/multi-line/mentioning default_factory; schema type object/None/array (with and without "
    "items), additionalProperties none/true/false/schema with and without properties, name None and empty base_name; "
    "all_schemas with the enum schemas or empty.  A case is NON-TRIVIAL when the real generator produced at least one field "
    "with a default expression other than `None` or renamed at least one property, or raised."
)

BASIC = ["string", "integer", "number", "boolean"]


# ------------------------------------------------------------------------------------------------ infrastructure
@contextlib.contextmanager
def _quiet():
    import logging
    base = os.environ.get("VERIF_SCRATCH_DIR", "/tmp")
    os.makedirs(base, exist_ok=True)
    d = tempfile.mkdtemp(prefix="corr_dc_", dir=base)
    old_env, old_td = os.environ.get("TMPDIR"), tempfile.tempdir
    os.environ["TMPDIR"] = d
    tempfile.tempdir = d
    old_disable = logging.root.manager.disable
    logging.disable(logging.CRITICAL)
    try:
        yield d
    finally:
        logging.disable(old_disable)
        tempfile.tempdir = old_td
        if old_env is None:
            os.environ.pop("TMPDIR", None)
        else:
            os.environ["TMPDIR"] = old_env
        shutil.rmtree(d, ignore_errors=True)


def _uinfo(strings) -> dict:
    tbl = {}
    for s in strings:
        for c in s:
            if ord(c) >= 128 and str(ord(c)) not in tbl:
                tbl[str(ord(c))] = {"w": bool(re.match(r"\w", c)), "d": c.isdigit(), "l": c.lower(), "U": c.upper(),
                                    "iu": c.isupper()}
    return tbl


def _strings_of(x, acc):
    if isinstance(x, str):
        acc.append(x)
    elif isinstance(x, dict):
        for k, v in x.items():
            _strings_of(k, acc)
            _strings_of(v, acc)
    elif isinstance(x, (list, tuple)):
        for v in x:
            _strings_of(v, acc)
    return acc


def _driver_batch(driver: str, reqs: list) -> list:
    if not reqs:
        return []
    out = []
    for i in range(0, len(reqs), 3000):
        chunk = reqs[i:i + 3000]
        for r in chunk:
            u = _uinfo(_strings_of(r["a"], []))
            if u:
                r["u"] = u
        data = "\n".join(json.dumps(r, ensure_ascii=True) for r in chunk) + "\n"
        p = subprocess.run([driver], input=data, capture_output=True, text=True, timeout=900)
        if p.returncode != 0:
            raise RuntimeError(f"driver exited {p.returncode}: {p.stderr[-1000:]}")
        lines = [ln for ln in p.stdout.split("\n") if ln != ""]
        if len(lines) != len(chunk):
            raise RuntimeError(f"driver answered {len(lines)} lines for {len(chunk)} requests")
        out += [json.loads(ln) for ln in lines]
    return out


# ------------------------------------------------------------------------------------------------ case description -> IRSchema
#  A case is plain JSON:  {"schema": S, "base": str, "registry": "full" | "empty"}
#    S = {"name","type","desc","required":[...],"props":[[key,P]...],"items":P|None,"addProps": None|bool|P,"default":enc}
#    P = {"type","name","desc","default":enc,"items":P|None,"anyOf":bool,"oneOf":bool,"allOf":bool,"enum":[...]|None}
#    enc = None | ["json", text] | ["float", repr]      (floats separately: inf / nan are not JSON)

def _enc(v):
    if v is None:
        return None
    if isinstance(v, float):
        return ["float", repr(v)]
    return ["json", json.dumps(v)]


def _dec(e):
    if e is None:
        return None
    if e[0] == "float":
        return float(e[1])
    return json.loads(e[1])


ENUMS = {
    "Level": ("string", ["N/A", "in-progress", "2x", "ok", "in progress!", "if", "a-b", "a b", "Done", "not_started", "é"]),
    "Color": ("string", ["red", "green", "dark blue", "light-grey"]),
    "Code": ("integer", [1, 2, -1, 10]),
    "EmptyEnum": ("string", []),
}


def _registry(kind: str) -> dict:
    from pyopenapi_gen import IRSchema
    if kind == "empty":
        return {}
    reg = {}
    for n, (t, vals) in ENUMS.items():
        reg[n] = IRSchema(name=n, type=t, enum=list(vals))
    reg["Pet"] = IRSchema(name="Pet", type="object", properties={"id": IRSchema(type="integer")}, required=["id"])
    return reg


def _mk_prop(p: dict):
    from pyopenapi_gen import IRSchema
    s = IRSchema(type=p.get("type"), description=p.get("desc"), default=_dec(p.get("default")))
    s.name = p.get("name")                       # assigned after construction: no renaming by __post_init__
    if p.get("items") is not None:
        s.items = _mk_prop(p["items"])
    if p.get("enum") is not None:
        s.enum = list(p["enum"])
    for f, a in (("anyOf", "any_of"), ("oneOf", "one_of"), ("allOf", "all_of")):
        v = p.get(f)
        if v is not None:
            setattr(s, a, [IRSchema(type="string"), IRSchema(type="integer")] if v else [])
    return s


def _mk_schema(sj: dict):
    from pyopenapi_gen import IRSchema
    s = IRSchema(type=sj.get("type"), description=sj.get("desc"), default=_dec(sj.get("default")))
    s.name = sj.get("name")
    s.required = list(sj.get("required") or [])
    s.properties = {k: _mk_prop(p) for k, p in sj.get("props") or []}
    if sj.get("items") is not None:
        s.items = _mk_prop(sj["items"])
    ap = sj.get("addProps")
    s.additional_properties = _mk_prop(ap) if isinstance(ap, dict) else ap
    return s


def _default_json(v):
    if v is None:
        return None
    if isinstance(v, str):
        return {"k": "str", "v": v}
    if isinstance(v, bool):
        return {"k": "bool", "v": v}
    if isinstance(v, int):
        return {"k": "int", "v": v}
    if isinstance(v, float):
        return {"k": "float", "t": str(v)}
    return {"k": "other", "t": str(v)}


def _class_body(code: str, base: str):
    """-> (docstring text, [field lines stripped]) by slicing the emitted text of `render_dataclass`."""
    lines = code.split("\n")
    i = lines.index(f"class {base}:") + 1
    doc = []
    first = lines[i].strip()
    doc.append(lines[i])
    if not (len(first) >= 6 and first.startswith('"""') and first.endswith('"""')):
        i += 1
        while not lines[i].strip().endswith('"""'):
            doc.append(lines[i])
            i += 1
        doc.append(lines[i])
    i += 1
    body = []
    while i < len(lines):
        ln = lines[i]
        if ln.strip() == "" and (i + 1 >= len(lines) or lines[i + 1].strip() in ("class Meta:", "")):
            break
        body.append(ln[4:] if ln.startswith("    ") else ln)
        i += 1
    return "\n".join(doc), body


def _ast_body(code: str, base: str):
    """-> [(name, has_default, line text)] of the AnnAssign statements of the class, or None when not parseable."""
    try:
        tree = ast.parse(code)
    except (SyntaxError, ValueError):
        return None
    src = code.split("\n")
    for node in tree.body:
        if isinstance(node, ast.ClassDef) and node.name == base:
            out = []
            for st in node.body:
                if isinstance(st, ast.AnnAssign) and isinstance(st.target, ast.Name):
                    out.append((st.target.id, st.value is not None, src[st.lineno - 1].strip()))
            return out
    return None


def _run_real(case: dict) -> dict:
    """Run the real generator.  -> {"impl": comparable result, "model_schema": JSON for the driver, "raw": extras}"""
    from pyopenapi_gen import IRSchema
    from pyopenapi_gen.context.render_context import RenderContext
    from pyopenapi_gen.core.writers.python_construct_renderer import PythonConstructRenderer
    from pyopenapi_gen.visit.model.dataclass_generator import DataclassGenerator

    sj, base = case["schema"], case["base"]
    reg = _registry(case.get("registry", "full"))
    schema = _mk_schema(sj)
    if schema.name:
        reg = dict(reg)
        if reg or case.get("registry", "full") == "full":
            reg[schema.name] = schema
    root = os.path.join(tempfile.gettempdir(), "proj")
    ctx = RenderContext(core_package_name="core", package_root_for_generated_code=os.path.join(root, "pkg"),
                        overall_project_root=root, parsed_schemas=reg)
    ctx.set_current_file(os.path.join(root, "pkg", "models", "thing.py"))
    renderer = PythonConstructRenderer()
    cap: dict = {}
    orig_render = renderer.render_dataclass

    def spy_render(**kw):
        cap["fields"] = [tuple(f) for f in kw["fields"]]
        cap["mappings"] = None if kw.get("field_mappings") is None else list(kw["field_mappings"].items())
        code = orig_render(**kw)
        cap["code"] = code
        return code

    renderer.render_dataclass = spy_render
    gen = DataclassGenerator(renderer, reg)
    types: dict = {}
    orig_resolve = gen.type_service.resolve_schema_type

    forced = {id(schema.properties[k]): t for k, t in (case.get("forcedTypes") or {}).items() if k in schema.properties}

    def spy_resolve(s, context, required=True, **kw):
        t = orig_resolve(s, context, required=required, **kw)
        if id(s) in forced:                      # the witness of Pog/Props/Dc.lean fixes the (opaque) type texts
            t = forced[id(s)]
        types[id(s)] = t
        return t

    gen.type_service.resolve_schema_type = spy_resolve
    raised = None
    code = None
    try:
        code = gen.generate(schema, base, ctx)
    except ValueError:
        raised = "ValueError"
    except RuntimeError as e:
        raised = "RuntimeError:field-import" if "'field' import" in str(e) else f"RuntimeError:{e}"

    # ---- what the model is given
    props = []
    for k, ps in schema.properties.items():
        ev = None
        if ps.name and gen.all_schemas:
            es = gen.all_schemas.get(ps.name)
            if es is not None:
                ev = [str(v) for v in (es.enum or [])]
        props.append({"key": k, "type": ps.type, "name": ps.name, "anyOf": bool(ps.any_of), "oneOf": bool(ps.one_of),
                      "allOf": bool(ps.all_of), "default": _default_json(ps.default), "pyType": types.get(id(ps), ""),
                      "enumVals": ev, "desc": ps.description})
    ap = schema.additional_properties
    doc_mentions = False
    if "code" in cap:
        doc, _ = _class_body(cap["code"], base)
        doc_mentions = "default_factory" in doc
    model_schema = {
        "name": schema.name, "type": schema.type, "props": props, "required": list(schema.required),
        "hasItems": bool(schema.items),
        "itemsFieldType": cap["fields"][0][1] if cap.get("fields") and cap.get("mappings") is None and schema.items else "",
        "itemPyType": types.get(id(schema.items), "") if schema.items is not None else "",
        "desc": schema.description,
        "addProps": (None if ap is None else ap if isinstance(ap, bool) else {"pyType": types.get(id(ap), "")}),
        "docMentionsFactory": doc_mentions,
    }

    # ---- what the real code did
    if raised is not None:
        impl = {"raises": raised}
    elif "code" not in cap:
        m = re.search(r"^    _data: dict\[str, (.*)\] = field\(default_factory=dict, repr=False\)$", code, re.M)
        vt = m.group(1) if m else "?"
        typed = "_value_type: ClassVar[str]" in code
        impl = {"shape": "wrapperJson", "fields": [], "mappings": [], "body": [], "lines": [],
                "valueType": vt if typed else None}
        if not typed and vt != "Any":
            impl["valueType"] = "?untyped-but-" + vt
    else:
        fields = cap["fields"]
        _, text_lines = _class_body(cap["code"], base)
        parsed = _ast_body(cap["code"], base)
        if not fields:
            shape = "empty"
            body = []
        else:
            shape = "arrayWrapper" if (cap["mappings"] is None and schema.type == "array" and schema.items) else "object"
            if parsed is not None and len(parsed) == len(fields):
                body = [n for n, _, _ in parsed]
                ast_lines = [ln for _, _, ln in parsed]
                if ast_lines != text_lines:
                    text_lines = ["<ast/text mismatch>"] + ast_lines
            else:                                   # emitted module is not valid Python: slice the text
                body = [ln.split(":", 1)[0] for ln in text_lines]
        impl = {"shape": shape,
                "fields": [[n, t, d, doc] for n, t, d, doc in fields],
                "mappings": [] if cap["mappings"] is None else [[k, v] for k, v in cap["mappings"]],
                "body": body, "lines": text_lines, "valueType": None}
    return {"impl": impl, "model_schema": model_schema, "code": cap.get("code", code), "fields": cap.get("fields"),
            "mappings": cap.get("mappings"), "parsed_ok": ("code" in cap and _ast_body(cap["code"], base) is not None)}


def _model_view(ans):
    """The driver's answer in the shape of `impl`."""
    if not isinstance(ans, dict) or "error" in ans or "raises" in ans:
        return ans
    return {"shape": ans["shape"], "fields": [f[:4] for f in ans["fields"]], "mappings": ans["mappings"],
            "body": ans["body"], "lines": ans["lines"], "valueType": ans["valueType"]}


# ------------------------------------------------------------------------------------------------ generators
KEY_POOL = [
    "userId", "user_id", "user-id", "UserID", "user id", "class", "def", "from", "1abc", "2x", "10", "9", "données",
    "id", "name", "Name", "NAME", "items", "type", "a", "b", "B", "x-y", "x_y", "xY",
    "_private", "self", "field", "Field", "field_", "zeta", "Alpha", "alpha", "émoji😀", "HTTPCode", "{id}", "a.b",
    "None", "none", "list",
]
KEY_RARE = ["default_factory", "defaultFactory", "日本", "_", "__", ""]      # crash the generator / give an empty identifier
STR_DEFAULTS = ["", "abc", 'a"b', "back\\slash", "line\nbreak", "tab\there", "cr\rlf", "😀", "a😀b", "é", "\x00", " ",
                "default_factory", "\\u0041", "'", '"""', "N/A", "퟿", "\U0010ffff", "\x7f", "\x1f"]
INT_DEFAULTS = [0, 1, -5, 42, 10 ** 20, -(10 ** 18)]
FLOAT_DEFAULTS = [1.5, -0.0, 1e100, 0.1, 3.0, float("inf"), float("-inf"), float("nan")]
OTHER_DEFAULTS = [[1, 2], [], {"a": 1}, {}, ["x"]]
DESCS = [None, None, None, "", "A description.", "multi\nline text", "Quote \" and 'x'",
         "a somewhat longer description of the property that goes on for a while so that the writer has to wrap it around"]


def _gen_default(r, kinds="sbifo"):
    k = r.choice(kinds)
    if k == "s":
        return r.choice(STR_DEFAULTS)
    if k == "b":
        return r.choice([True, False])
    if k == "i":
        return r.choice(INT_DEFAULTS)
    if k == "f":
        return r.choice(FLOAT_DEFAULTS)
    return r.choice(OTHER_DEFAULTS)


def _gen_prop(r) -> dict:
    k = r.random()
    p: dict = {"desc": r.choice(DESCS) if r.random() < 0.985 else "uses default_factory inside"}
    if k < 0.34:                       # primitive
        p["type"] = r.choice(BASIC)
        d = r.random()
        if d < 0.35:
            pass
        elif d < 0.85:                 # default of the matching python type
            kinds = {"string": "s", "integer": "i", "number": "f", "boolean": "b"}[p["type"]]
            p["default"] = _enc(_gen_default(r, kinds))
        else:                          # any default
            p["default"] = _enc(_gen_default(r))
    elif k < 0.46:                     # array
        p["type"] = "array"
        p["items"] = {"type": r.choice(BASIC)}
        if r.random() < 0.3:
            p["default"] = _enc(r.choice([[], ["a"], "x", 3]))
        if r.random() < 0.15:
            p["name"] = r.choice(["Pet", "Tags"])
    elif k < 0.62:                     # object-ish
        p["type"] = "object"
        n = r.random()
        p["name"] = None if n < 0.6 else "" if n < 0.7 else "Pet" if n < 0.9 else "Unknown"
        c = r.random()
        if c < 0.12:
            p["anyOf"] = True
        elif c < 0.18:
            p["oneOf"] = True
        elif c < 0.24:
            p["allOf"] = True
        elif c < 0.30:
            p["anyOf"] = False
        if r.random() < 0.3:
            p["default"] = _enc(_gen_default(r, "osi"))
    elif k < 0.86:                     # reference to an enum schema (or a name that is not one)
        n = r.choice(["Level", "Level", "Level", "Color", "Code", "EmptyEnum", "Pet", "Missing"])
        p["name"] = n
        t, vals = ENUMS.get(n, ("string", []))
        p["type"] = r.choice([t, t, t, n, None])
        if r.random() < 0.6:
            p["enum"] = list(vals)
        d = r.random()
        if d < 0.75 and vals:
            p["default"] = _enc(r.choice(vals))
        elif d < 0.85:
            p["default"] = _enc(r.choice(["zzz", "N/A", True, 7, 2.5, ["ok"]]))
    elif k < 0.93:                     # composition
        p["type"] = r.choice([None, None, "object", "string"])
        p[r.choice(["anyOf", "oneOf", "allOf"])] = True
        if r.random() < 0.3:
            p["default"] = _enc(_gen_default(r))
    else:                              # untyped
        p["type"] = r.choice([None, "null", "Pet", "Level"])
        if r.random() < 0.4:
            p["default"] = _enc(_gen_default(r))
    return p


def _gen_case(r) -> dict:
    fam = r.random()
    sj: dict = {"name": "Thing", "type": "object",
                "desc": r.choice(DESCS) if r.random() < 0.985 else "wraps a default_factory"}
    base = "Thing"
    registry = "full" if r.random() < 0.9 else "empty"
    if fam < 0.76:                     # object with properties
        n = r.choice([1, 1, 2, 2, 3, 3, 4, 5, 6, 8])
        pool = KEY_POOL if r.random() < 0.7 else KEY_POOL[:8]
        keys = r.sample(pool, min(n, len(pool)))
        if r.random() < 0.10:
            keys[r.randrange(len(keys))] = r.choice(KEY_RARE)
        sj["props"] = [[k, _gen_prop(r)] for k in keys]
        req = [k for k in keys if r.random() < 0.4]
        if r.random() < 0.3:
            req += r.sample(["zzz", "nope", "user_id", "ID"], r.choice([1, 2]))
        if r.random() < 0.1:
            req = req + req[:1]
        r.shuffle(req)
        sj["required"] = req
        t = r.random()
        sj["type"] = "object" if t < 0.8 else None if t < 0.9 else "array" if t < 0.97 else "string"
        a = r.random()
        sj["addProps"] = None if a < 0.7 else True if a < 0.8 else False if a < 0.9 else {"type": "string"}
        if sj["type"] == "array" and r.random() < 0.5:
            sj["items"] = {"type": "string"}
    elif fam < 0.84:                   # array wrapper
        sj["type"] = "array"
        it = r.random()
        sj["items"] = ({"type": r.choice(BASIC)} if it < 0.5 else {"type": "object", "name": "Pet"} if it < 0.7
                       else {"type": "object"} if it < 0.85 else {"type": None})
        if r.random() < 0.3:
            sj["default"] = _enc(r.choice([[], [1], "x"]))
        if r.random() < 0.3:
            sj["required"] = ["items"]
    elif fam < 0.94:                   # no properties: JSON wrapper / empty class
        sj["type"] = r.choice(["object", "object", "object", None, "string"])
        a = r.random()
        sj["addProps"] = (None if a < 0.2 else True if a < 0.45 else False if a < 0.6 else
                          r.choice([{"type": "string"}, {"type": "integer"}, {"type": "object", "name": "Pet"},
                                    {"type": "object"}, {"type": None}, {"type": "array", "items": {"type": "string"}},
                                    {"type": "array", "items": {"type": None}}, {"type": "string", "name": "Level"}]))
        if r.random() < 0.15:
            sj["required"] = ["ghost"]
    else:                              # pre-condition violations
        sj["props"] = [["a", {"type": "string"}]]
        if r.random() < 0.5:
            sj["name"] = None
        else:
            base = ""
    if r.random() < 0.03:
        base = r.choice(["default_factory_holder", "Thing2"])
    return {"schema": sj, "base": base, "registry": registry}


# the witness `Pog.DcProps.thing` of Pog/Props/Dc.lean and the class body its `example` states (by `decide`)
THING_CASE = {
    "base": "Thing", "registry": "full",
    "forcedTypes": {"userId": "str | None", "user_id": "int", "user-id": "bool | None", "class": "List[str] | None",
                    "obj": "dict[str, Any]", "lvl": "Level | None", "meta": "dict[str, Any] | None"},
    "schema": {"name": "Thing", "type": "object", "required": ["user_id", "zzz", "obj"], "props": [
        ["userId", {"type": "string", "default": _enc('a"b\\')}],
        ["user_id", {"type": "integer", "default": _enc(3)}],
        ["user-id", {"type": "boolean", "default": _enc(True)}],
        ["class", {"type": "array", "items": {"type": "string"}}],
        ["obj", {"type": "object"}],
        ["lvl", {"type": "string", "name": "Level", "default": _enc("N/A")}],
        ["meta", {"type": "object"}]]},
}
THING_LINES = [
    "obj: dict[str, Any]",
    "user_id: int",
    "class_: List[str] | None = field(default_factory=list)  # Maps from 'class'",
    "lvl: Level | None = Level(\"N/A\")",
    "meta: dict[str, Any] | None = field(default_factory=dict)",
    "user_id_2: bool | None = True  # Maps from 'user-id'",
    "user_id_3: str | None = \"a\\\"b\\\\\"  # Maps from 'userId'",
]


# ------------------------------------------------------------------------------------------------ run
def _nontrivial(impl: dict) -> bool:
    if "raises" in impl:
        return True
    if impl.get("valueType"):
        return True
    return any(f[2] not in (None, "None") for f in impl["fields"]) or any(k != v for k, v in impl["mappings"])


def _bump_features(dist: dict, impl: dict, ms: dict, parsed_ok: bool):
    def bump(k, n=1):
        dist[k] = dist.get(k, 0) + n
    if "raises" in impl:
        bump("raises:" + impl["raises"])
        return
    bump("shape:" + impl["shape"])
    if impl["shape"] == "wrapperJson":
        bump("wrapper:typed" if impl["valueType"] else "wrapper:untyped")
        return
    if impl["fields"]:
        bump("parsed-by-ast" if parsed_ok else "not-valid-python(text-sliced)")
    byk = {p["key"]: p for p in ms["props"]}
    for k, v in impl["mappings"]:
        if re.search(r"_\d+$", v) and not re.search(r"_\d+$", k):
            bump("collision-suffix")
        if k != v:
            bump("renamed")
    for n, t, d, doc in impl["fields"]:
        if d is None:
            bump("field:required")
        elif d == "None":
            bump("default:None")
        elif d == "field(default_factory=list)":
            bump("default:list-factory")
        elif d == "field(default_factory=dict)":
            bump("default:dict-factory")
        elif d.startswith('"'):
            bump("default:str-literal")
        elif d in ("True", "False"):
            bump("default:bool")
        elif re.match(r"^-?\d+$", d):
            bump("default:int")
        elif re.match(r"^[A-Za-z_][A-Za-z0-9_]*\.", d):
            bump("default:enum-member")
        else:
            bump("default:float-or-other")
    unknown = [x for x in ms["required"] if x not in byk]
    if unknown:
        bump("required-has-unknown-names")
    if impl["fields"] and impl["body"] != [f[0] for f in impl["fields"]]:
        bump("renderer-reordered")


def run(seed: int, scale: float, driver: str = DEFAULT_DRIVER) -> dict:
    r = random.Random(seed)
    n_cases = max(30, int(13000 * scale))
    comparisons = 0
    disagreements: list = []
    distribution: dict = {}
    samples: list = []
    nontrivial = set()

    def compare(label, request, model, impl):
        nonlocal comparisons
        comparisons += 1
        if model != impl and len(disagreements) < 50:
            disagreements.append({"label": label, "request": request, "model": model, "impl": impl})

    reqs, impls, labels = [], [], []
    with _quiet():
        real = _run_real(THING_CASE)
        compare("thing-witness(real vs the Lean example)", THING_CASE, THING_LINES, real["impl"].get("lines"))
        reqs.append({"f": "dcGenerate", "a": [real["model_schema"], "Thing"]})
        impls.append(real["impl"])
        labels.append("dcGenerate")
        for _ in range(n_cases):
            case = _gen_case(r)
            real = _run_real(case)
            reqs.append({"f": "dcGenerate", "a": [real["model_schema"], case["base"]]})
            impls.append(real["impl"])
            labels.append("dcGenerate")
            _bump_features(distribution, real["impl"], real["model_schema"], real["parsed_ok"])
            if _nontrivial(real["impl"]):
                nontrivial.add(json.dumps(case, sort_keys=True))
                if len(samples) < 5 and len(json.dumps(case)) < 1500 and r.random() < 0.2:
                    samples.append({"case": case, "real": real["impl"]})
        # the enum member rule and the sort on their own
        for _ in range(max(20, int(1500 * scale))):
            v = "".join(r.choice(["a", "B", "-", " ", "_", "1", "/", "é", "ß", "!", "x", "İ", "ǆ", "😀"])
                        for _ in range(r.randint(0, 6)))
            reqs.append({"f": "dcEnumDefaultMember", "a": [v]})
            impls.append(v.upper().replace("-", "_").replace(" ", "_"))
            labels.append("dcEnumDefaultMember")
        for _ in range(max(20, int(1500 * scale))):
            keys = r.sample(KEY_POOL + KEY_RARE, r.randint(0, 9))
            req = [k for k in keys if r.random() < 0.4] + (["zzz"] if r.random() < 0.3 else [])
            reqs.append({"f": "dcSortKeys", "a": [req, keys]})
            impls.append([k for k, _ in sorted({k: 1 for k in keys}.items(), key=lambda item: (item[0] not in req, item[0]))])
            labels.append("dcSortKeys")
        answers = _driver_batch(driver, reqs)
    for lab, req, ans, impl in zip(labels, reqs, answers, impls):
        compare(lab, req, _model_view(ans) if lab == "dcGenerate" else ans, impl)
    return {"comparisons": comparisons, "disagreements": disagreements, "nontrivial": len(nontrivial), "rule": RULE,
            "samples": samples, "distribution": distribution}


# ------------------------------------------------------------------------------------------------ oracle
def _real_enum_members(name: str):
    """[(member_name, value)] of the enum the REAL EnumGenerator emits for the registry schema `name`."""
    from pyopenapi_gen.context.render_context import RenderContext
    from pyopenapi_gen.core.writers.python_construct_renderer import PythonConstructRenderer
    from pyopenapi_gen.visit.model.enum_generator import EnumGenerator
    reg = _registry("full")
    renderer = PythonConstructRenderer()
    cap = {}
    orig = renderer.render_enum

    def spy(**kw):
        cap["values"] = list(kw["values"])
        return orig(**kw)

    renderer.render_enum = spy
    root = os.path.join(tempfile.gettempdir(), "proj")
    ctx = RenderContext(core_package_name="core", package_root_for_generated_code=os.path.join(root, "pkg"),
                        overall_project_root=root, parsed_schemas=reg)
    ctx.set_current_file(os.path.join(root, "pkg", "models", "e.py"))
    EnumGenerator(renderer).generate(reg[name], name, ctx)
    return cap["values"]


_ENUM_CACHE: dict = {}


def _enum_members(name):
    if name not in _ENUM_CACHE:
        _ENUM_CACHE[name] = _real_enum_members(name)
    return _ENUM_CACHE[name]


def _same_value(a, b) -> bool:
    if isinstance(a, float) and isinstance(b, float):
        return (math.isnan(a) and math.isnan(b)) or (a == b and math.copysign(1, a) == math.copysign(1, b))
    return type(a) is type(b) and a == b


def _eval_case(case: dict) -> list:
    fails = []

    def fail(cls, observed, expected):
        fails.append({"class": cls, "case": case, "observed": observed, "expected": expected})

    real = _run_real(case)
    impl = real["impl"]
    sj = case["schema"]
    wellformed = sj.get("name") is not None and case["base"] != ""
    if "raises" in impl:
        if wellformed:
            fail("dc-default-factory-text-crash" if impl["raises"] == "RuntimeError:field-import" else "dc-generate-raises",
                 impl["raises"], "no exception for a named schema and a non-empty base name")
        return fails
    if impl["shape"] != "object":
        if impl["shape"] == "arrayWrapper" or impl["shape"] == "empty":
            seen = False
            for ln in impl["lines"]:
                if " = " in ln:
                    seen = True
                elif seen and ":" in ln:
                    fail("dc-default-before-nondefault", impl["lines"], "fields without default first")
        return fails
    fields, mappings, body = impl["fields"], impl["mappings"], impl["body"]
    props = dict((k, p) for k, p in sj.get("props") or [])
    required = set(sj.get("required") or [])
    byname = {f[0]: f for f in fields}
    # (1) defaults last, in the emitted class body
    seen_default = False
    for n in body:
        f = byname.get(n)
        has = f is not None and f[2] is not None
        if has:
            seen_default = True
        elif seen_default:
            fail("dc-default-before-nondefault", body, "fields without default first")
            break
    # (1b) the class body runs top to bottom and `name: T = default` rebinds `name`: no default may call a name an earlier field
    #      with a default has rebound (F5 repaired: a property called `field` is emitted as `field_`)
    rebound: set = set()
    for n in body:
        f = byname.get(n)
        if f is None:
            continue
        d_ = f[2]
        if d_ is not None:
            m_ = re.match(r"([A-Za-z_][A-Za-z0-9_]*)\(", d_)
            if m_ and m_.group(1) in rebound:
                fail("dc-field-shadows-default-callee", {"body": body, "field": n, "default_expr": d_},
                     f"`{m_.group(1)}` still names what the module imported")
                break
            rebound.add(n)
    # (2) one field per property
    names = [f[0] for f in fields]
    if (sorted(body) != sorted(names) or len(set(names)) != len(names) or sorted(k for k, _ in mappings) != sorted(props)
            or [v for _, v in mappings] != names):
        fail("dc-field-property-mismatch", {"fields": names, "body": body, "mappings": mappings}, sorted(props))
    # (3) required iff no default
    for (k, n), f in zip(mappings, fields):
        if (f[2] is None) != (k in required):
            fail("dc-required-default-mismatch", {"key": k, "default": f[2]}, {"required": k in required})
    # (4) scalar defaults evaluate to the declared default; (5) enum member exists
    reg = _registry(case.get("registry", "full"))
    for (k, n), f in zip(mappings, fields):
        p = props[k]
        d = f[2]
        if d is None:
            continue
        dv = _dec(p.get("default"))
        if d in ("field(default_factory=list)", "field(default_factory=dict)"):
            continue
        pname = p.get("name")
        es = reg.get(pname) if (pname and reg) else None
        if dv is not None and es is not None and es.enum:
            # F53 repaired: the default is a lookup BY VALUE, `Name(<literal>)`; the literal must be the value of a generated member
            members = _enum_members(pname)
            hit = []
            if d.startswith(pname + "(") and d.endswith(")"):
                try:
                    x = ast.literal_eval(d[len(pname) + 1:-1])
                    hit = [v for m, v in members if v == x and type(v) is type(x)]
                except (ValueError, SyntaxError):
                    hit = []
            in_enum = any(_same_value(dv, v) or (isinstance(dv, str) and str(v) == dv) for v in es.enum)
            if not in_enum:
                continue                 # a default outside the enum: not this property
            if not hit:
                fail("dc-enum-default-int-member-missing" if es.type == "integer" else "dc-enum-default-member-missing",
                     {"key": k, "default_expr": d, "members": [m for m, _ in members]}, "a member of the generated enum")
            elif not (hit[0] == dv or str(hit[0]) == str(dv)):
                fail("dc-enum-default-wrong-member", {"key": k, "default_expr": d, "member_value": hit[0]},
                     {"default": dv})
            continue
        if dv is None or not isinstance(dv, (str, bool, int, float)):
            if d != "None":
                fail("dc-nonscalar-default-not-none", {"key": k, "default_expr": d}, "None")
            continue
        try:
            val = ast.literal_eval(d)
            ok = _same_value(val, dv)
        except (ValueError, SyntaxError):
            val, ok = "<not a literal>", False
        if not ok:
            if isinstance(dv, str):
                cls = "dc-str-default-astral" if any(ord(c) > 0xFFFF for c in dv) else "dc-str-default-mismatch"
            elif isinstance(dv, float) and (math.isinf(dv) or math.isnan(dv)):
                cls = "dc-float-default-nonfinite"
            else:
                cls = "dc-scalar-default-mismatch"
            fail(cls, {"key": k, "default_expr": d, "evaluates_to": repr(val)}, {"default": repr(dv)})
    # (6) independent of the order of `properties`
    rev = dict(case)
    rev["schema"] = dict(sj)
    rev["schema"]["props"] = list(reversed(sj.get("props") or []))
    impl2 = _run_real(rev)["impl"]
    if impl2 != impl:
        fail("dc-depends-on-properties-order", impl2.get("body"), impl.get("body"))
    return fails


def _make_cases(seed: int, scale: float) -> list:
    r = random.Random(seed * 7919 + 29)
    return [_gen_case(r) for _ in range(max(30, int(10000 * scale)))]


def oracle(seed: int, scale: float) -> dict:
    failures = []
    per_class: dict = {}
    n = 0
    with _quiet():
        for case in _make_cases(seed, scale):
            n += 1
            for f in _eval_case(case):
                per_class[f["class"]] = per_class.get(f["class"], 0) + 1
                if per_class[f["class"]] <= 40:
                    failures.append(f)
    return {"evaluations": n, "failures": failures, "failures_per_class": per_class}


def replay(case) -> bool:
    with _quiet():
        return bool(_eval_case(case))


if __name__ == "__main__":
    sys.path.insert(0, "/repo/src")
    import time
    t0 = time.time()
    seed = int(sys.argv[1]) if len(sys.argv) > 1 else 1
    scale = float(sys.argv[2]) if len(sys.argv) > 2 else 1.0
    res = run(seed, scale, DEFAULT_DRIVER)
    print(f"{res['comparisons']} comparisons, {res['nontrivial']} non-trivial, {len(res['disagreements'])} disagreements "
          f"({time.time() - t0:.1f}s)")
    print(json.dumps(res["distribution"], sort_keys=True))
    for d in res["disagreements"][:5]:
        print(json.dumps(d)[:3000])
    t1 = time.time()
    o = oracle(seed, scale)
    by = o["failures_per_class"]
    print(f"oracle: {o['evaluations']} evaluations, failures by class: {json.dumps(by, sort_keys=True)} "
          f"({time.time() - t1:.1f}s)")
    if o["failures"]:
        print("replay of first failure:", replay(o["failures"][0]["case"]))
