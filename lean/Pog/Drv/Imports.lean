import Pog.Drv.Util
import Pog.Model.Imports
import Pog.Model.Annot
import Pog.Model.AliasCover
open Lean Pog Pog.Drv
namespace Pog.Drv

def importsFns : List String :=
  ["relImport", "pyResolveRel", "calcRel", "moduleDotPath", "classifyImport", "splitDot", "topLevel",
   "formatResolved", "formatResolvedAnn", "renderAnn", "evalOK", "evalKind", "resolveTree",
   "raisedAliases", "generatedAliases", "handlerRaises", "raisedCodes", "generatedCodes"]

private def getOptI (f : Json → Except String α) (j : Json) : Except String (Option α) :=
  if j.isNull then pure none else do pure (some (← f j))

private def optField (f : Json → Except String α) (j : Json) (k : String) : Except String (Option α) :=
  match j.getObjVal? k with
  | .ok v => getOptI f v
  | .error _ => pure none

/-- `{"n": s}` name | `{"q": s}` quoted | `{"s": [head, [args]]}` | `{"b": [l, r]}` | `{"none": true}` -/
private partial def getAnn (j : Json) : Except String Ann := do
  if let .ok v := j.getObjVal? "n" then return .name (← getStr v)
  if let .ok v := j.getObjVal? "q" then return .quoted (← getStr v)
  if let .ok v := j.getObjVal? "s" then
    let a ← v.getArr?
    let h ← getAnn (← argN a 0)
    let args ← (← (← argN a 1).getArr?).toList.mapM getAnn
    return .sub h args
  if let .ok v := j.getObjVal? "b" then
    let a ← v.getArr?
    return .bor (← getAnn (← argN a 0)) (← getAnn (← argN a 1))
  if let .ok _ := j.getObjVal? "none" then return .none_
  throw "bad Ann"

/-- `{"prim": s}` | `{"model": [cls, self]}` | `{"arr": t}` | `{"union": [ts]}` -/
private partial def getSTree (j : Json) : Except String STree := do
  if let .ok v := j.getObjVal? "prim" then return .prim (← getStr v)
  if let .ok v := j.getObjVal? "model" then
    let a ← v.getArr?
    return .model (← getStr (← argN a 0)) (← getBool (← argN a 1))
  if let .ok v := j.getObjVal? "arr" then return .arr (← getSTree v)
  if let .ok v := j.getObjVal? "union" then return .union (← (← v.getArr?).toList.mapM getSTree)
  throw "bad STree"

private def kindName : Kind → String
  | .ty => "ty" | .alias => "alias" | .noneV => "none" | .strV => "str"

private def getImpCtx (j : Json) : Except String ImpCtx := do
  pure {
    corePkg := ← getStr (← j.getObjVal? "core")
    useAbs := ← getBool (← j.getObjVal? "use_abs")
    outputPkg := ← optField getStr j "output_pkg"
    pkgRoot := ← optField getStrs j "pkg_root"
    projectRoot := ← getStrs (← j.getObjVal? "project_root")
    curFile := ← optField getStrs j "cur_file"
    tgtIsDir := ← getBool (← j.getObjVal? "tgt_is_dir")
    builtinNames := ← getStrs (← j.getObjVal? "builtins") }

private def jImpOut : ImpOut → Json
  | .skip => Json.mkObj [("kind", "skip")]
  | .fromImport m n => Json.mkObj [("kind", "from"), ("module", jstr m), ("name", jstr n)]
  | .plain m => Json.mkObj [("kind", "plain"), ("module", jstr m)]
  | .rel m n => Json.mkObj [("kind", "rel"), ("module", jstr m), ("name", jstr n)]

private def jFormatted (r : Resolved) : Json :=
  let f := formatResolved r
  Json.mkObj [
    ("python_type", jstr (render r.ty)),
    ("is_optional", Json.bool r.isOptional),
    ("is_forward_ref", Json.bool r.isForwardRef),
    ("text", jopt (fun a => jstr (render a)) f),
    ("evalOK", jopt (fun a => Json.bool (evalOK a)) f),
    ("kind", match f with
      | some a => jopt (fun k => Json.str (kindName k)) (evalKind a)
      | none => Json.null),
    ("baseKind", jopt (fun k => Json.str (kindName k)) (evalKind r.ty))]

def importsRun (f : String) (a : Array Json) : Except String Json := do
  match f with
  | "relImport" => pure (jstr (relImport (← getStr (← argN a 0)) (← getStr (← argN a 1))))
  | "pyResolveRel" =>
    pure (jopt jstrs (pyResolveRel (← getStrs (← argN a 0)) (← getStr (← argN a 1))))
  | "calcRel" =>
    pure (jopt jstr (calcRel (← getStrs (← argN a 0)) (← getStrs (← argN a 1)) (← getStrs (← argN a 2))
      (← getBool (← argN a 3))))
  | "moduleDotPath" => pure (jopt jstr (moduleDotPath (← getStrs (← argN a 0)) (← getStrs (← argN a 1))))
  | "classifyImport" =>
    let c ← getImpCtx (← argN a 0)
    let name ← getOptI getStr (← argN a 2)
    pure (jImpOut (classifyImport c (← getStr (← argN a 1)) name (← getBool (← argN a 3))))
  | "splitDot" => pure (jstrs (splitDot (← getStr (← argN a 0))))
  | "topLevel" => pure (jstr (topLevel (← getStr (← argN a 0))))
  | "formatResolved" =>
    let j ← argN a 0
    pure (jopt jstr (formatText (← getStr (← j.getObjVal? "python_type"))
      (← getBool (← j.getObjVal? "is_optional")) (← getBool (← j.getObjVal? "is_forward_ref"))))
  | "formatResolvedAnn" =>
    let j ← argN a 0
    pure (jFormatted ⟨← getAnn (← j.getObjVal? "ty"), ← getBool (← j.getObjVal? "is_optional"),
      ← getBool (← j.getObjVal? "is_forward_ref")⟩)
  | "renderAnn" => pure (jstr (render (← getAnn (← argN a 0))))
  | "evalOK" => pure (Json.bool (evalOK (← getAnn (← argN a 0))))
  | "evalKind" => pure (jopt (fun k => Json.str (kindName k)) (evalKind (← getAnn (← argN a 0))))
  | "resolveTree" => pure (jFormatted (resolveTree (← getSTree (← argN a 0)) (← getBool (← argN a 1))))
  | "handlerRaises" => pure (jlist jnat (handlerRaises (← getStrs (← argN a 0))))
  | "raisedCodes" => pure (jlist jnat (raisedCodes (← getList getNat (← argN a 0))))
  | "generatedCodes" => pure (jlist jnat (generatedCodes (← getList getNat (← argN a 0))))
  | "raisedAliases" => pure (jstrs (raisedAliases (← getList getNat (← argN a 0))))
  | "generatedAliases" => pure (jstrs (generatedAliases (← getList getNat (← argN a 0))))
  | _ => throw s!"unknown function {f}"

def dispatchImports : Dispatch := fun f a _ =>
  if importsFns.contains f then some (importsRun f a) else none

end Pog.Drv
