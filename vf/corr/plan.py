#!/venv/bin/python
"""C10 / C09 — where `ClientGenerator.generate` writes, and whether two runs give the same bytes.

run():    (a)+(d) the REAL `ClientGenerator().generate(...)` in sandbox project roots, under an audit hook, for
          layouts {embedded core, sibling core, nested, deeper, string-prefix names} x force on/off x existing tree
          {absent, equal, different, partial} x injected fault {none, or the k-th emitter's `emit` raises}:
            * every path opened for writing / renamed / removed / mkdir'ed is in the write-set the Lean plan predicts
              (`planWrites`), temp-dir paths mapped onto the model's temp root;
            * the FINAL tree below the project root (paths, bytes, directories) and the outcome
              (success / "Differences found" / other exception) equal the model's `planRun` on the same initial tree
              (the texts of the files are taken from a reference generation; the model decides where they go, under
              which guard, what is removed, and the diff decision);
          (b) `_show_diffs` on random small trees vs `showDiffs`; `read_text().splitlines()` vs `pyLines`;
          (c) `ImportCollector.get_import_statements/get_formatted_imports` under shuffled insertion orders vs
              `renderImports`; `make_relative_import`; `_generate_init_py_content` under shuffled dict orders vs
              `initExports`; `os.path.relpath`/`normpath` round trip vs `relpathRoundtrip`; the string-prefix test;
              `extract_url_variables` and `_ensure_path_variables_as_params` (+ the final stable sort) vs
              `extractUrlVars` / `finalParams`; the operation-id de-duplication applied twice vs `dedupTwice`.
oracle(): C10 and C09 evaluated directly on the real generator with (path, size, sha256, mtime_ns) snapshots.
Importable: no work and no `pyopenapi_gen` import at module import time.
"""
from __future__ import annotations

import contextlib
import hashlib
import io
import json
import logging
import os
import random
import shutil
import subprocess
import sys
import tempfile
import types

DEFAULT_DRIVER = os.path.join(os.path.dirname(os.path.abspath(__file__)), ".lake", "build", "bin", "driver")

RULE = (
    "generation scenarios: every layout in LAYOUTS x force in {True,False} x existing tree in {absent, equal (a previous "
    "force generation), different (one .py edited), partial (models/ and client.py deleted), nopy (package directory with data files only), emptydir} plus, for two layouts, a "
    "fault injected at each of the six emitters in both modes; a scenario is NON-TRIVIAL when the run changed the tree "
    "below the project root or raised.  _show_diffs: seeded random pairs of trees over a pool of 7 relative paths "
    "(.py and non-.py, nested) with contents drawn from a pool that differ in bytes, only in line terminators, or not at "
    "all; non-trivial when a .py file exists in both trees with different bytes.  ImportCollector: seeded random "
    "multisets of add_import/add_relative_import/add_plain_import calls, each rendered under 3 shuffled call orders and "
    "several file contexts; non-trivial when at least two modules and one multi-name module are rendered.  "
    "relpath/normpath, prefix test, init exports, url variables: seeded random inputs; non-trivial when the result is not "
    "the identity/default (a '..' in the relative path, prefix test true, >= 2 exported classes, >= 1 appended variable)."
)

SPEC = {
    "openapi": "3.0.0",
    "info": {"title": "T", "version": "1"},
    "paths": {
        "/pets": {"get": {"operationId": "listPets", "tags": ["pets"], "summary": "s", "responses": {
            "200": {"description": "ok", "content": {"application/json": {"schema": {
                "type": "array", "items": {"$ref": "#/components/schemas/Pet"}}}}},
            "404": {"description": "nf"}}}},
        "/pets/{petId}": {"get": {"operationId": "getPet", "tags": ["pets"], "summary": "s", "parameters": [
            {"name": "petId", "in": "path", "required": True, "schema": {"type": "string"}}],
            "responses": {"200": {"description": "ok", "content": {"application/json": {"schema": {
                "$ref": "#/components/schemas/Pet"}}}}, "500": {"description": "e"}}}},
        "/users": {"get": {"operationId": "listUsers", "tags": ["users"], "summary": "s", "responses": {
            "200": {"description": "ok", "content": {"application/json": {"schema": {
                "$ref": "#/components/schemas/User"}}}}}}},
    },
    "components": {"schemas": {
        "Pet": {"type": "object", "properties": {"id": {"type": "integer"}, "name": {"type": "string"}}},
        "User": {"type": "object", "properties": {"id": {"type": "integer"}, "email": {"type": "string"}}}}},
}
MODEL_STEMS = ["pet", "user"]
ENDPOINT_MODS = ["pets", "users"]

# operation ids foo, foo, foo_2 in one tag (class "force-double-emit")
SPEC_DUP = {
    "openapi": "3.0.0", "info": {"title": "T", "version": "1"},
    "paths": {
        "/a": {"get": {"operationId": "foo", "summary": "s", "responses": {"200": {"description": "ok"}}}},
        "/b": {"get": {"operationId": "foo", "summary": "s", "responses": {"200": {"description": "ok"}}}},
        "/c": {"get": {"operationId": "foo_2", "summary": "s", "responses": {"200": {"description": "ok"}}}},
    },
}
# two path variables that are not declared as parameters (class "url-vars-hash-order")
SPEC_VARS = {
    "openapi": "3.0.0", "info": {"title": "T", "version": "1"},
    "paths": {
        "/t/{tenant}/u/{user}/o/{order}/i/{item}": {"get": {"operationId": "getItem", "summary": "s", "responses": {
            "200": {"description": "ok"}}}},
    },
}

# (output_package, core_package)
LAYOUTS = [
    ("client", None),                 # embedded core
    ("pkg.client", "pkg.core"),       # sibling core
    ("a.b.client", "a.core"),         # nested
    ("app.client", "x.y.z.core"),     # deeper
    ("a", "ab.core"),                 # str(core).startswith(str(out)) although core is not inside out
    ("ab.client", "a.core"),          # the other way round
]
STATES = ["absent", "equal", "different", "partial", "nopy", "emptydir"]
EMITTERS = [
    ("exceptions", "pyopenapi_gen.emitters.exceptions_emitter", "ExceptionsEmitter"),
    ("core", "pyopenapi_gen.emitters.core_emitter", "CoreEmitter"),
    ("models", "pyopenapi_gen.emitters.models_emitter", "ModelsEmitter"),
    ("endpoints", "pyopenapi_gen.emitters.endpoints_emitter", "EndpointsEmitter"),
    ("client", "pyopenapi_gen.emitters.client_emitter", "ClientEmitter"),
    ("mocks", "pyopenapi_gen.emitters.mocks_emitter", "MocksEmitter"),
]
TMP_NAME = "TMPROOT"
# a user module that ruff would rewrite (unused import, unsorted imports, formatting) if it were ever handed to it
BYSTANDER_PY = "import sys,os\nimport json\nx=1\ndef f( a,b ):\n  return a\n"


# ---------------------------------------------------------------------------------------------------------------------
# plumbing

def _drive(driver: str, reqs: list) -> list:
    if not reqs:
        return []
    inp = "".join(json.dumps({"f": f, "a": list(a)}) + "\n" for f, *a in reqs)
    p = subprocess.run([driver], input=inp, capture_output=True, text=True, timeout=900)
    lines = p.stdout.splitlines()
    assert len(lines) == len(reqs), (len(lines), len(reqs), p.stderr[-2000:])
    res = [json.loads(x) for x in lines]
    for q, r in zip(reqs, res):
        if isinstance(r, dict) and "error" in r:
            raise RuntimeError(f"driver error {str(q)[:300]}: {r['error']}")
    return res


@contextlib.contextmanager
def _scratch(tag: str):
    base = os.environ.get("VERIF_SCRATCH_DIR", "/tmp")
    os.makedirs(base, exist_ok=True)
    d = os.path.realpath(tempfile.mkdtemp(prefix=f"corr_plan_{tag}_", dir=base))
    old_env, old_td = os.environ.get("TMPDIR"), tempfile.tempdir
    os.makedirs(os.path.join(d, "tmp"))
    os.environ["TMPDIR"] = os.path.join(d, "tmp")
    tempfile.tempdir = os.path.join(d, "tmp")
    try:
        yield d
    finally:
        tempfile.tempdir = old_td
        if old_env is None:
            os.environ.pop("TMPDIR", None)
        else:
            os.environ["TMPDIR"] = old_env
        shutil.rmtree(d, ignore_errors=True)


@contextlib.contextmanager
def _quiet():
    prev = logging.root.manager.disable
    logging.disable(logging.CRITICAL)
    try:
        with contextlib.redirect_stdout(io.StringIO()), contextlib.redirect_stderr(io.StringIO()):
            yield
    finally:
        logging.disable(prev)


_AUDIT = {"on": False, "events": [], "installed": False}
_WFLAGS = os.O_WRONLY | os.O_RDWR | os.O_CREAT | os.O_TRUNC | os.O_APPEND


def _norm(p) -> str:
    return os.path.normpath(os.path.join(os.getcwd(), os.fsdecode(p)))


def _hook(event: str, args) -> None:
    if not _AUDIT["on"]:
        return
    ev = _AUDIT["events"]
    try:
        if event == "open":
            path, mode, flags = args[0], args[1], args[2]
            if isinstance(path, int):
                return
            w = (isinstance(mode, str) and any(ch in mode for ch in "wax+")) or (
                mode is None and isinstance(flags, int) and bool(flags & _WFLAGS))
            if w:
                ev.append(("write", _norm(path)))
        elif event == "os.mkdir":
            if args[2] in (None, -1):
                ev.append(("mkdir", _norm(args[0])))
        elif event == "os.remove":
            if args[1] in (None, -1):
                ev.append(("remove", _norm(args[0])))
        elif event == "os.rmdir":
            if args[1] in (None, -1):
                ev.append(("remove", _norm(args[0])))
        elif event == "os.rename":
            if args[2] in (None, -1) and args[3] in (None, -1):
                ev.append(("remove", _norm(args[0])))
                ev.append(("write", _norm(args[1])))
        elif event == "shutil.rmtree":
            ev.append(("rmtree", _norm(args[0])))
    except Exception:      # never let the hook break the run
        pass


def _install_hook() -> None:
    if not _AUDIT["installed"]:
        sys.addaudithook(_hook)
        _AUDIT["installed"] = True


@contextlib.contextmanager
def _fault(stage: str | None):
    """Make the `emit` of the named emitter raise on its first call."""
    if stage is None:
        yield
        return
    import importlib
    mod, cls = next((m, c) for s, m, c in EMITTERS if s == stage)
    klass = getattr(importlib.import_module(mod), cls)
    orig = klass.emit

    def boom(self, *a, **k):
        raise RuntimeError(f"injected fault in {cls}.emit")

    klass.emit = boom
    try:
        yield
    finally:
        klass.emit = orig


def _generate(spec_path: str, root: str, out_pkg: str, core_pkg, force: bool, fault: str | None = None,
              audit: bool = False, post: bool = False):
    """-> (outcome, events)"""
    from pathlib import Path

    from pyopenapi_gen.generator.client_generator import ClientGenerator
    from pyopenapi_gen.generator.exceptions import GenerationError

    _AUDIT["events"] = []
    with _fault(fault), _quiet():
        _AUDIT["on"] = audit
        try:
            ClientGenerator(verbose=False).generate(spec_path, Path(root), out_pkg, force=force, no_postprocess=not post,
                                                    core_package=core_pkg)
            outcome = "success"
        except GenerationError as e:
            outcome = "raisedDiff" if "Differences found" in str(e) else "raisedOther"
        except Exception:
            outcome = "raisedOther"
        finally:
            _AUDIT["on"] = False
    return outcome, list(_AUDIT["events"])


def _read_tree(root: str):
    """-> ({relpath: text}, {reldir})"""
    files, dirs = {}, set()
    for d, ds, fs in os.walk(root):
        rel = os.path.relpath(d, root)
        if rel != ".":
            dirs.add(rel)
        for f in fs:
            p = os.path.join(d, f)
            with open(p, "rb") as fh:
                files[os.path.normpath(os.path.join(rel, f))] = fh.read().decode("utf-8")
    return files, dirs


def _snapshot(root: str) -> dict:
    snap = {}
    for d, ds, fs in os.walk(root):
        rel = os.path.relpath(d, root)
        if rel != ".":
            snap[rel + "/"] = ("dir",)
        for f in fs:
            p = os.path.join(d, f)
            with open(p, "rb") as fh:
                b = fh.read()
            st = os.stat(p)
            snap[os.path.normpath(os.path.join(rel, f))] = (len(b), hashlib.sha256(b).hexdigest(), st.st_mtime_ns)
    return snap


def _comps(path: str) -> list:
    return [c for c in path.split("/") if c]


def _pkg_dir(pkg: str) -> str:
    return "/".join(c for c in pkg.split(".") if c)


def _core_fqn(out_pkg: str, core_pkg) -> str:
    return out_pkg + ".core" if core_pkg is None else core_pkg


def _write_spec(base: str, name: str, spec: dict) -> str:
    p = os.path.join(base, name)
    with open(p, "w") as f:
        json.dump(spec, f)
    return p


# ---------------------------------------------------------------------------------------------------------------------
# reference generation: texts for the model's PlanSpec

def _reference(base: str, spec_path: str, out_pkg: str, core_pkg, tag: str):
    """Force-generate into a fresh root (tree F), then run the diff path over it and capture the temporary trees (T).
    -> (ref_root, plan_spec_json, notes)"""
    from pyopenapi_gen.emitters.core_emitter import RUNTIME_FILES
    from pyopenapi_gen.generator.client_generator import ClientGenerator

    ref_root = os.path.join(base, f"ref_{tag}")
    os.makedirs(ref_root)
    oc, _ = _generate(spec_path, ref_root, out_pkg, core_pkg, True)
    assert oc == "success", oc
    out_rel, core_rel = _pkg_dir(out_pkg), _pkg_dir(_core_fqn(out_pkg, core_pkg))
    captured = []
    orig = ClientGenerator._show_diffs

    def spy(self, old_dir, new_dir):
        dst = os.path.join(base, f"cap_{tag}_{len(captured)}")
        shutil.copytree(new_dir, dst)
        captured.append(dst)
        return orig(self, old_dir, new_dir)

    ClientGenerator._show_diffs = spy
    try:
        _generate(spec_path, ref_root, out_pkg, core_pkg, False)
    finally:
        ClientGenerator._show_diffs = orig
    assert captured, "diff path did not run"
    t_out, _ = _read_tree(captured[0])
    if len(captured) > 1:
        t_core, _ = _read_tree(captured[1])
    else:
        t_core = {k[len("core/"):]: v for k, v in t_out.items() if k.startswith("core/")}
    f_all, _ = _read_tree(ref_root)
    f_out = {k[len(out_rel) + 1:]: v for k, v in f_all.items() if k.startswith(out_rel + "/")}
    f_core = {k[len(core_rel) + 1:]: v for k, v in f_all.items() if k.startswith(core_rel + "/")}

    def mods(tree, prefix, strip=""):
        res = []
        for k in sorted(tree):
            if k.startswith(prefix) and k.endswith(".py") and "/" not in k[len(prefix):] and \
                    not k.endswith("__init__.py"):
                res.append([k[len(prefix):-3][len(strip):], tree[k]])
        return res

    spec = {
        "aliases": t_core["exception_aliases.py"],
        "registry": t_core.get(".exception_registry.json", f_core.get(".exception_registry.json", "")),
        "runtime": [[dst.replace("core/", "", 1).split("/"), t_core[dst.replace("core/", "", 1)]]
                    for _m, _f, dst in RUNTIME_FILES],
        "coreInit": t_core["__init__.py"], "authInit": t_core["auth/__init__.py"],
        "readme": t_core["README.md"], "config": t_core["config.py"],
        "models": mods(t_out, "models/"), "modelsInit": t_out["models/__init__.py"],
        "endpoints": [mods(t_out, "endpoints/"), mods(f_out, "endpoints/")],
        "endpointsInit": [t_out["endpoints/__init__.py"], f_out["endpoints/__init__.py"]],
        "client": t_out["client.py"],
        "mocks": [mods(t_out, "mocks/endpoints/", "mock_")] * 2 + [mods(f_out, "mocks/endpoints/", "mock_")],
        "mockEndpointsInit": [t_out["mocks/endpoints/__init__.py"]] * 2 + [f_out["mocks/endpoints/__init__.py"]],
        "mockClient": [t_out["mocks/mock_client.py"]] * 2 + [f_out["mocks/mock_client.py"]],
        "mocksInit": [t_out["mocks/__init__.py"]] * 2 + [f_out["mocks/__init__.py"]],
        "richInit": f_out["__init__.py"] if core_pkg else "",
    }
    # files whose text differs between the force tree and the diff-path tree
    differing = sorted(k for k in set(f_out) | set(t_out) if f_out.get(k) != t_out.get(k)
                       and not (core_pkg is None and k.startswith("core/")))
    differing += sorted("<core>/" + k for k in set(f_core) | set(t_core) if f_core.get(k) != t_core.get(k))
    for c in captured:
        shutil.rmtree(c, ignore_errors=True)
    return ref_root, spec, differing


def _prepare_state(ref_root: str, root: str, out_pkg: str, core_pkg, state: str) -> None:
    out_rel = _pkg_dir(out_pkg)
    if state == "absent":
        os.makedirs(root)
        return
    if state in ("nopy", "emptydir"):
        # the output package directory exists but holds no python source at all (data files only / nothing)
        os.makedirs(os.path.join(root, out_rel))
        with open(os.path.join(root, "NOTES.txt"), "w") as f:
            f.write("mine\n")
        if state == "nopy":
            core_rel = _pkg_dir(_core_fqn(out_pkg, core_pkg))
            os.makedirs(os.path.join(root, core_rel), exist_ok=True)
            with open(os.path.join(root, out_rel, "py.typed"), "w") as f:
                f.write("")
            with open(os.path.join(root, out_rel, "NOTES.txt"), "w") as f:
                f.write("kept by the user\n")
            with open(os.path.join(root, core_rel, ".exception_registry.json"), "w") as f:
                f.write('{}')
        return
    shutil.copytree(ref_root, root)
    # user modules next to the generated packages, inside every ancestor package directory (not generated, not __init__.py)
    for rel in {out_rel, _pkg_dir(_core_fqn(out_pkg, core_pkg))}:
        parts = rel.split("/")
        for i in range(1, len(parts)):
            with open(os.path.join(root, *parts[:i], "user_mod.py"), "w") as f:
                f.write(BYSTANDER_PY)
    # bystanders that do not belong to the generator
    with open(os.path.join(root, "NOTES.txt"), "w") as f:
        f.write("mine\n")
    os.makedirs(os.path.join(root, "otherpkg"))
    with open(os.path.join(root, "otherpkg", "mod.py"), "w") as f:
        f.write(BYSTANDER_PY)
    with open(os.path.join(root, out_rel, "user_extra.py"), "w") as f:
        f.write("# user file inside the output package\n")
    if state == "different":
        with open(os.path.join(root, out_rel, "client.py"), "a") as f:
            f.write("# edited by hand\n")
    elif state == "partial":
        shutil.rmtree(os.path.join(root, out_rel, "models"))
        os.remove(os.path.join(root, out_rel, "client.py"))


def _model_requests(root: str, tmpdir: str, out_pkg: str, core_pkg, force: bool, plan_spec: dict, fault_stage):
    files, dirs = _read_tree(root)
    rc, tc = _comps(root), _comps(tmpdir)
    cfg = {"root": rc, "outputPackage": out_pkg, "corePackage": core_pkg, "force": force,
           "outExists": os.path.exists(os.path.join(root, _pkg_dir(out_pkg))), "noPostprocess": True,
           "tmpDir": tc, "tmpName": TMP_NAME}
    mfiles = [[rc + _comps(k), v] for k, v in sorted(files.items())]
    mdirs = [rc[:i] for i in range(len(rc) + 1)] + [tc[:i] for i in range(len(tc) + 1)] + \
            [rc + _comps(d) for d in sorted(dirs)]
    return cfg, mfiles, mdirs


def _fault_index(plan: dict, stage) -> int:
    n = 0
    for st in plan["stages"]:
        if st["stage"] == stage:
            return n
        n += len(st["ops"])
    return n if stage is None else -1


def _scenario_list(rng: random.Random, scale: float):
    scen = []
    layouts = LAYOUTS if scale >= 0.5 else LAYOUTS[: max(2, int(len(LAYOUTS) * scale * 2))]
    for li, (o, c) in enumerate(layouts):
        for st in STATES:
            for force in (True, False):
                scen.append((li, st, force, None))
    fault_layouts = [1, 4] if scale >= 0.5 else [1]
    for li in fault_layouts:
        if li >= len(layouts):
            continue
        for stage, _m, _c in EMITTERS:
            for force in (True, False):
                scen.append((li, "equal", force, stage))
            if scale >= 1.0:
                scen.append((li, "absent", False, stage))
    if scale > 1.0:
        extra = int((scale - 1.0) * 20)
        for _ in range(extra):
            scen.append((rng.randrange(len(layouts)), rng.choice(STATES), rng.random() < 0.5,
                         rng.choice([None] + [s for s, _m, _c in EMITTERS])))
    return layouts, scen


# ---------------------------------------------------------------------------------------------------------------------
# run(): part (a)+(d)

def _run_generation(rng, scale, driver, out):
    _install_hook()
    with _scratch("gen") as base:
        tmpdir = os.environ["TMPDIR"]
        spec_path = _write_spec(base, "spec.json", SPEC)
        layouts, scen = _scenario_list(rng, scale)
        refs = {}
        for li, (o, c) in enumerate(layouts):
            refs[li] = _reference(base, spec_path, o, c, str(li))
            out["distribution"]["ref_differing_files"][f"{o}|{c}"] = refs[li][2]
        pending = []
        for i, (li, state, force, fault) in enumerate(scen):
            o, c = layouts[li]
            ref_root, plan_spec, _ = refs[li]
            root = os.path.join(base, f"proj_{i}")
            _prepare_state(ref_root, root, o, c, state)
            cfg, mfiles, mdirs = _model_requests(root, tmpdir, o, c, force, plan_spec, fault)
            before_files, before_dirs = _read_tree(root)
            before_tmp = set(os.listdir(tmpdir))
            outcome, events = _generate(spec_path, root, o, c, force, fault, audit=True)
            after_files, after_dirs = _read_tree(root)
            leftovers = sorted(set(os.listdir(tmpdir)) - before_tmp - {"pyopenapi_gen_file_write_debug.log",
                                                                       "pyopenapi_gen_error.log",
                                                                       "pyopenapi_gen_mocks_error.log"})
            pending.append(dict(i=i, layout=[o, c], state=state, force=force, fault=fault, root=root, cfg=cfg,
                                mfiles=mfiles, mdirs=mdirs, outcome=outcome, events=events,
                                after_files=after_files, after_dirs=after_dirs,
                                changed=(before_files != after_files or before_dirs != after_dirs),
                                leftovers=leftovers, plan_spec=plan_spec))
            shutil.rmtree(root, ignore_errors=True)
        # model: plans first (to learn the fault index), then the runs
        plans = _drive(driver, [("planWrites", p["cfg"], p["plan_spec"]) for p in pending])
        runs = _drive(driver, [("planRun", p["cfg"], p["plan_spec"], p["mfiles"], p["mdirs"],
                                _fault_index(pl, p["fault"]) if p["fault"] else 10 ** 6)
                               for p, pl in zip(pending, plans)])
        for p, pl, rn in zip(pending, plans, runs):
            label = f"gen[{p['layout'][0]}|{p['layout'][1]}|{p['state']}|force={p['force']}|fault={p['fault']}]"
            root = p["root"]
            key = f"{p['state']}/force={p['force']}/fault={p['fault'] is not None}"
            out["distribution"]["scenarios"][key] = out["distribution"]["scenarios"].get(key, 0) + 1
            out["distribution"]["outcomes"][p["outcome"]] = out["distribution"]["outcomes"].get(p["outcome"], 0) + 1
            if p["changed"] or p["outcome"] != "success":
                out["nontrivial_keys"].add(label)
            # 1. audit events within the predicted sets
            tmp_real = None
            for kind, path in p["events"]:
                if kind == "mkdir" and os.path.dirname(path) == tmpdir:
                    tmp_real = path
                    break
            tmp_model = os.path.join(tmpdir, TMP_NAME)

            def to_model(path):
                if tmp_real and (path == tmp_real or path.startswith(tmp_real + "/")):
                    return tmp_model + path[len(tmp_real):]
                return path

            writes, removes, mk = set(pl["writes"]), set(pl["removes"]), set(pl["mkdirs"])
            aux = {os.path.join(tmpdir, n) for n in ("pyopenapi_gen_error.log", "pyopenapi_gen_mocks_error.log")}
            bad = []
            for kind, path in p["events"]:
                mp = to_model(path)
                if kind == "write":
                    ok = mp in writes or mp in aux
                elif kind == "mkdir":
                    ok = mp == tmp_model or any(t == mp or t.startswith(mp + "/") for t in mk)
                elif kind == "rmtree":
                    ok = mp in removes or mp == tmp_model
                else:   # remove
                    ok = mp in removes or mp == tmp_model or mp.startswith(tmp_model + "/")
                if not ok:
                    bad.append([kind, mp])
                if not (path.startswith(root + "/") or path == root or path.startswith(tmpdir + "/")):
                    bad.append(["outside-root-and-tmp", path])
            out["comparisons"] += 1
            if bad:
                out["disagreements"].append({"label": label + ":audit", "request": p["cfg"],
                                             "model": {"writes": len(writes)}, "impl": bad[:10]})
            # 2. created .py files: observed = predicted (on the files that exist afterwards)
            # 3. final tree + outcome
            mfinal = {k[len(root) + 1:]: v for k, v in rn["files"] if k.startswith(root + "/")}
            mdirs_final = {d[len(root) + 1:] for d in rn["dirs"] if d.startswith(root + "/")}
            out["comparisons"] += 3
            if rn["outcome"] != p["outcome"]:
                out["disagreements"].append({"label": label + ":outcome", "request": p["cfg"],
                                             "model": rn["outcome"], "impl": p["outcome"]})
            if mfinal != p["after_files"]:
                ks = sorted(k for k in set(mfinal) | set(p["after_files"]) if mfinal.get(k) != p["after_files"].get(k))
                out["disagreements"].append({"label": label + ":tree", "request": p["cfg"],
                                             "model": {k: (mfinal.get(k) or "<absent>")[:80] for k in ks[:8]},
                                             "impl": {k: (p["after_files"].get(k) or "<absent>")[:80] for k in ks[:8]}})
            if mdirs_final != p["after_dirs"]:
                out["disagreements"].append({"label": label + ":dirs", "request": p["cfg"],
                                             "model": sorted(mdirs_final ^ p["after_dirs"])[:10], "impl": "symmetric difference"})
            if p["leftovers"]:
                out["disagreements"].append({"label": label + ":tmp-leftover", "request": p["cfg"],
                                             "model": [], "impl": p["leftovers"]})
            if len(out["samples"]) < 3 and p["outcome"] != "success":
                out["samples"].append({"case": label, "impl": p["outcome"], "model": rn["outcome"],
                                       "files_after": len(p["after_files"])})


# ---------------------------------------------------------------------------------------------------------------------
# run(): part (b) _show_diffs

PATH_POOL = ["client.py", "models/pet.py", "models/__init__.py", "py.typed", "core/README.md", "core/x/deep.py",
             "notes.txt", ".py", "a.PY", "mod.pyi"]
TEXT_POOL = ["", "x = 1", "x = 1\n", "x = 1\r\n", "x = 1\r", "x = 1\n\n", "x = 2\n", "a\nb\n", "a\r\nb", "a\x0cb\n",
             "a\n\x0cb\n", "a\x1cb", "a\x85b\n", "a b", "a\n\rb", "a\n\nb", "\n", "\r\n", "a \n", "a\x0b",
             "a\x1fb"]


def _write_tree(d: str, tree: dict) -> None:
    os.makedirs(d, exist_ok=True)
    for rel, text in tree.items():
        p = os.path.join(d, rel)
        os.makedirs(os.path.dirname(p), exist_ok=True)
        with open(p, "wb") as f:
            f.write(text.encode("utf-8"))


def _run_show_diffs(rng, scale, driver, out):
    from pyopenapi_gen.generator.client_generator import ClientGenerator
    n = max(20, int(250 * scale))
    cases = []
    with _scratch("diff") as base:
        gen = ClientGenerator(verbose=False)
        for i in range(n):
            names = rng.sample(PATH_POOL, rng.randint(1, 6))
            new = {nm: rng.choice(TEXT_POOL) for nm in names}
            old = {}
            for nm in names:
                r = rng.random()
                if r < 0.55:
                    old[nm] = new[nm]
                elif r < 0.85:
                    old[nm] = rng.choice(TEXT_POOL)
            for nm in rng.sample(PATH_POOL, rng.randint(0, 2)):
                old.setdefault(nm, rng.choice(TEXT_POOL))
            od, nd = os.path.join(base, f"o{i}"), os.path.join(base, f"n{i}")
            _write_tree(od, old)
            _write_tree(nd, new)
            with _quiet():
                impl = gen._show_diffs(od, nd)
            cases.append((old, new, impl))
        # read_text().splitlines() directly
        line_cases = []
        for i, t in enumerate(TEXT_POOL + ["".join(rng.choice(["a", "b", "\n", "\r", "\r\n", "\x0c", " ", "\x85"])
                                                   for _ in range(rng.randint(0, 8))) for _ in range(int(60 * scale))]):
            p = os.path.join(base, f"l{i}.txt")
            with open(p, "wb") as f:
                f.write(t.encode("utf-8"))
            from pathlib import Path
            line_cases.append((t, Path(p).read_text().splitlines()))

    def tj(tree):
        return [[k.split("/"), v] for k, v in sorted(tree.items())]

    res = _drive(driver, [("showDiffs", tj(o), tj(nw)) for o, nw, _ in cases])
    for (o, nw, impl), m in zip(cases, res):
        out["comparisons"] += 1
        both = [k for k in nw if k.endswith(".py") and k in o and o[k] != nw[k]]
        if both:
            out["nontrivial_keys"].add("diff:" + json.dumps([sorted(o.items()), sorted(nw.items())]))
        out["distribution"]["show_diffs"][str(impl)] = out["distribution"]["show_diffs"].get(str(impl), 0) + 1
        if m != impl:
            out["disagreements"].append({"label": "showDiffs", "request": [tj(o), tj(nw)], "model": m, "impl": impl})
        if len(out["samples"]) < 5 and both and not impl:
            out["samples"].append({"case": "showDiffs: bytes differ, no diff reported", "old": {k: o[k] for k in both},
                                   "new": {k: nw[k] for k in both}, "impl": impl, "model": m})
    res = _drive(driver, [("pyLines", t) for t, _ in line_cases])
    for (t, impl), m in zip(line_cases, res):
        out["comparisons"] += 1
        if len(impl) > 1:
            out["nontrivial_keys"].add("lines:" + repr(t))
        if m != impl:
            out["disagreements"].append({"label": "pyLines", "request": t, "model": m, "impl": impl})


# ---------------------------------------------------------------------------------------------------------------------
# run(): part (c) imports, init exports, paths, url variables

MODULE_POOL = ["typing", "os", "sys", "re", "json", "datetime", "collections.abc", "dataclasses", "enum", "time", "math",
               "httpx", "attrs", "my.core", "my.core.auth", "my.core.http_transport", "my.corex", "my.client.models.pet",
               "my.client.models.user", "my.client.endpoints.pets", "my.client", "other.pkg.mod", "_thread", "zlib",
               "my", "typingx", "os.path"]
NAME_POOL = ["Any", "List", "Optional", "Pet", "User", "os", "sys", "re", "json", "math", "dataclass", "Enum", "date",
             "datetime", "HttpTransport", "BaseAuth", "a", "B", "_c", "Zed", "time"]
REL_POOL = [".models", "..models.pet", ".pet", ".", "..core", ".user"]
CTX_POOL = [
    (None, None, None),
    ("my.client.models.pet", "my.client", "my.core"),
    ("my.client.endpoints.pets", "my.client", "my.core"),
    ("my.client.models", "my.client", "my.core"),
    ("my.client.client", "my.client", ""),
    ("my.client.a.b.c", "my", "other"),
    (".pet", "my.client", "my.core"),
    ("", "my.client", "my.core"),
]


def _run_imports(rng, scale, driver, out):
    from pyopenapi_gen.context import import_collector as ic

    tables = _drive(driver, [("importTables",)])[0]
    out["comparisons"] += 2
    if sorted(tables["preferPlain"]) != sorted(ic.STDLIB_MODULES_PREFER_PLAIN_IMPORT_WHEN_NAME_MATCHES):
        out["disagreements"].append({"label": "preferPlain table", "request": None, "model": tables["preferPlain"],
                                     "impl": sorted(ic.STDLIB_MODULES_PREFER_PLAIN_IMPORT_WHEN_NAME_MATCHES)})
    if sorted(tables["commonStdlib"]) != sorted(ic.COMMON_STDLIB):
        out["disagreements"].append({"label": "commonStdlib table", "request": None, "model": tables["commonStdlib"],
                                     "impl": sorted(ic.COMMON_STDLIB)})
    builtins = sorted(sys.builtin_module_names)
    reqs, impls, keys = [], [], []
    n = max(10, int(120 * scale))
    for _ in range(n):
        ops = []
        for _ in range(rng.randint(0, 10)):
            r = rng.random()
            if r < 0.6:
                m = rng.choice(MODULE_POOL)
                nm = m if rng.random() < 0.15 else rng.choice(NAME_POOL)
                ops.append(["imp", m, nm])
            elif r < 0.8:
                ops.append(["rel", rng.choice(REL_POOL), rng.choice(NAME_POOL)])
            else:
                ops.append(["plain", rng.choice(MODULE_POOL)])
        cur, root, core = rng.choice(CTX_POOL)
        ctx = {"builtins": builtins, "current": cur, "pkgRoot": root, "corePkg": core}
        base_result = None
        for k in range(3):
            order = list(ops)
            rng.shuffle(order)
            col = ic.ImportCollector()
            for op in order:
                if op[0] == "imp":
                    col.add_import(op[1], op[2])
                elif op[0] == "rel":
                    col.add_relative_import(op[1], op[2])
                else:
                    col.add_plain_import(op[1])
            col.set_current_file_context_for_rendering(cur, root, core)
            impl = {"statements": col.get_import_statements(), "formatted": col.get_formatted_imports()}
            if base_result is None:
                base_result = impl
            elif impl != base_result:
                out["disagreements"].append({"label": "imports: python output depends on call order", "request": ops,
                                             "model": base_result, "impl": impl})
            reqs.append(("renderImports", ctx, order))
            impls.append(impl)
            mods = {o[1] for o in ops if o[0] == "imp"}
            multi = any(len({o[2] for o in ops if o[0] == "imp" and o[1] == m}) > 1 for m in mods)
            keys.append(("imports:" + json.dumps([sorted(map(tuple, ops)), cur, root, core])) if len(mods) >= 2 and multi
                        else None)
    res = _drive(driver, reqs)
    for q, impl, m, key in zip(reqs, impls, res, keys):
        out["comparisons"] += 2
        if key:
            out["nontrivial_keys"].add(key)
        if m != impl:
            out["disagreements"].append({"label": "renderImports", "request": [q[1], q[2]], "model": m, "impl": impl})
    if reqs and len(out["samples"]) < 6:
        out["samples"].append({"case": "renderImports", "ops": reqs[0][2], "impl": impls[0]})
    # make_relative_import
    dotted = ["", "a", "a.b", "a.b.c", "a.b.c.d", "a.x", "a.b.x", "b", "a.bc", "a.b.c.d.e", "x.y", "a..b", "a.b."]
    reqs = [("makeRelativeImport", c, t) for c in dotted for t in dotted]
    res = _drive(driver, reqs)
    for (_, c, t), m in zip(reqs, res):
        impl = ic.make_relative_import(c, t)
        out["comparisons"] += 1
        if impl.strip(".") and impl.startswith(".."):
            out["nontrivial_keys"].add(f"rel:{c}->{t}")
        if m != impl:
            out["disagreements"].append({"label": "makeRelativeImport", "request": [c, t], "model": m, "impl": impl})


def _run_init_exports(rng, scale, driver, out):
    from pyopenapi_gen import IRSchema
    from pyopenapi_gen.context.render_context import RenderContext
    from pyopenapi_gen.emitters.models_emitter import ModelsEmitter

    names = ["Pet", "User", "Order", "Zeta", "alpha", "Pet2", "Pet_", "_X", "B"]
    reqs, impls = [], []
    for _ in range(max(10, int(60 * scale))):
        chosen = rng.sample(names, rng.randint(0, 6))
        rows = []
        for nm in chosen:
            gen = rng.choice([nm, nm + "Model", nm, ""])
            stem = rng.choice([nm.lower(), nm.lower() + "_2", "__init__", ""]) if rng.random() < 0.3 else nm.lower()
            rows.append([nm, gen, stem, rng.random() < 0.15])
        base_result = None
        for k in range(3):
            order = list(rows)
            rng.shuffle(order)
            schemas = {}
            for nm, gen, stem, unres in order:
                s = IRSchema(name=nm, type="object")
                s.generation_name = gen or None
                s.final_module_stem = stem or None
                s._from_unresolved_ref = unres
                schemas[nm] = s
            em = ModelsEmitter(context=RenderContext(), parsed_schemas=schemas)
            with _quiet():
                impl = em._generate_init_py_content()
            post_names = [schemas[nm].name for nm, _g, _s, _u in order]
            distinct = len(set(post_names)) == len(post_names)
            if base_result is None:
                base_result = impl
            elif impl != base_result:
                # legitimate only when two schemas share the (sanitised) sort key `s.name`: the sort is stable
                if distinct:
                    out["disagreements"].append({"label": "initExports: python output depends on dict order",
                                                 "request": rows, "model": base_result, "impl": impl})
                else:
                    out["distribution"]["init_order_dependent_duplicate_names"] = \
                        out["distribution"].get("init_order_dependent_duplicate_names", 0) + 1
            # the model reads IRSchema.name AFTER __post_init__ sanitisation
            reqs.append(("initExports", [[schemas[nm].name or "", gen, stem, unres] for nm, gen, stem, unres in order]))
            impls.append(impl)
    res = _drive(driver, reqs)
    for q, impl, m in zip(reqs, impls, res):
        out["comparisons"] += 1
        if impl.count("from .") >= 2:
            out["nontrivial_keys"].add("init:" + json.dumps(sorted(q[1])))
        if m != impl:
            out["disagreements"].append({"label": "initExports", "request": q[1], "model": m, "impl": impl})


def _run_paths(rng, scale, driver, out):
    segs = ["a", "ab", "abc", "b", "core", "client", "x", "y", "z", "pkg"]
    reqs, impls = [], []
    for _ in range(max(20, int(300 * scale))):
        root = ["srv"] + rng.sample(segs, rng.randint(0, 2))
        o = root + [rng.choice(segs) for _ in range(rng.randint(0, 3))]
        c = root + [rng.choice(segs) for _ in range(rng.randint(0, 4))]
        if rng.random() < 0.3:
            c = o + [rng.choice(segs) for _ in range(rng.randint(0, 2))]
        os_, cs = "/" + "/".join(o), "/" + "/".join(c)
        rel = os.path.relpath(cs, os_)
        target = os.path.normpath(os.path.join(os_, rel))
        reqs.append(("relpathRoundtrip", o, c))
        impls.append({"rel": rel.split("/"), "target": _comps(target)})
        reqs.append(("strPrefixTest", c, o))
        impls.append(cs.startswith(os_))
        # the while loop of generate()
        from pathlib import Path
        chain, cur, pr = [], Path(cs), Path("/" + "/".join(root))
        while cur != pr:
            chain.append(_comps(str(cur)))
            if cur.parent == cur:
                break
            cur = cur.parent
        reqs.append(("ancestorsTo", root, c))
        impls.append(chain)
        pkg = rng.choice(["a.b.client", "client", "a..b", ".", ".a", "a.", "x.y.z.core", ""])
        reqs.append(("pkgToPath", root, pkg))
        impls.append(_comps(str(Path("/" + "/".join(root)).joinpath(*pkg.split(".")))))
    # a loop that starts outside the root runs up to "/"
    reqs.append(("ancestorsTo", ["srv", "p"], ["other", "q"]))
    impls.append([["other", "q"], ["other"], []])
    res = _drive(driver, reqs)
    for q, impl, m in zip(reqs, impls, res):
        out["comparisons"] += 1
        if q[0] == "relpathRoundtrip" and ".." in impl["rel"]:
            out["nontrivial_keys"].add("relpath:" + json.dumps(q[1:]))
        if q[0] == "strPrefixTest" and impl:
            out["nontrivial_keys"].add("prefix:" + json.dumps(q[1:]))
            out["distribution"]["prefix_test_true"] = out["distribution"].get("prefix_test_true", 0) + 1
        if m != impl:
            out["disagreements"].append({"label": q[0], "request": q[1:], "model": m, "impl": impl})


def _run_url_vars(rng, scale, driver, out):
    from pyopenapi_gen.helpers.url_utils import extract_url_variables
    from pyopenapi_gen.visit.endpoint.processors.parameter_processor import EndpointParameterProcessor

    alphabet = ["{", "}", "a", "b", "/", "id", "user-id", "userId", "{", "}", " ", "\n"]
    urls = ["/a/{id}", "/a/{}/{b}", "/{a}{b}", "/{{a}}", "/{a", "/a}", "/{a}/{a}", "/{user-id}/{userId}/{user_id}", ""]
    urls += ["".join(rng.choice(alphabet) for _ in range(rng.randint(0, 10))) for _ in range(max(10, int(150 * scale)))]
    res = _drive(driver, [("extractUrlVars", u) for u in urls])
    for u, m in zip(urls, res):
        impl = extract_url_variables(u)
        out["comparisons"] += 1
        if len(impl) >= 2:
            out["nontrivial_keys"].add("urlvars:" + u)
        if set(m) != impl:
            out["disagreements"].append({"label": "extractUrlVars", "request": u, "model": m, "impl": sorted(impl)})
    reqs, impls = [], []
    varnames = ["id", "userId", "user-id", "user_id", "order", "tenant", "class", "X"]
    from pyopenapi_gen.core.utils import NameSanitizer
    for _ in range(max(10, int(100 * scale))):
        vs = rng.sample(varnames, rng.randint(0, 4))
        path = "/" + "/".join("{" + v + "}" for v in vs)
        declared = []
        for v in rng.sample(varnames, rng.randint(0, 3)):
            declared.append({"name": NameSanitizer.sanitize_method_name(v), "type": "str",
                             "required": rng.random() < 0.5, "default": None, "param_in": "query", "original_name": v})
        seen, dd = set(), []
        for d in declared:
            if d["name"] not in seen:
                seen.add(d["name"])
                dd.append(d)
        order = list(extract_url_variables(path))     # the iteration order of an equal set in this process
        rng.shuffle(order)                            # ... or any other: since the repair of F18 the code sorts the set
        pmap = {d["name"]: d for d in dd}
        got = EndpointParameterProcessor()._ensure_path_variables_as_params(types.SimpleNamespace(path=path), list(dd), pmap)
        got.sort(key=lambda p: not p["required"])     # parameter_processor.py:136
        reqs.append(("codeParams", [[d["name"], d["required"], d["original_name"]] for d in dd], order))
        impls.append([[p["name"], p["required"], p["original_name"]] for p in got])
    res = _drive(driver, reqs)
    for q, impl, m in zip(reqs, impls, res):
        out["comparisons"] += 1
        if len(impl) > len(q[1]):
            out["nontrivial_keys"].add("params:" + json.dumps(q[1:]))
        if m != impl:
            out["disagreements"].append({"label": "codeParams", "request": q[1:], "model": m, "impl": impl})
    # the de-duplication pass applied twice (what the force path does)
    from pyopenapi_gen.emitters.endpoints_emitter import EndpointsEmitter
    idpool = ["foo", "foo_2", "Foo", "bar", "foo_2_2", "get-x", "get_x"]
    reqs, impls = [], []
    # random id lists, then the former witness of F17 (it used to give foo,foo_2,foo_2 and, run again, foo,foo_2,foo_2_2)
    idlists = [[rng.choice(idpool) for _ in range(rng.randint(0, 5))] for _ in range(max(10, int(80 * scale)))]
    for ids in idlists + [["foo", "foo", "foo_2"]]:
        ops = [types.SimpleNamespace(operation_id=i) for i in ids]
        em = EndpointsEmitter.__new__(EndpointsEmitter)
        em._deduplicate_operation_ids_globally(ops)
        once = [o.operation_id for o in ops]
        em._deduplicate_operation_ids_globally(ops)
        twice = [o.operation_id for o in ops]
        reqs.append(("dedupTwice", ids))
        impls.append([once, twice])
    res = _drive(driver, reqs)
    for q, impl, m in zip(reqs, impls, res):
        out["comparisons"] += 1
        if impl[0] != q[1]:
            out["nontrivial_keys"].add("dedup2:" + json.dumps(q[1]))
            out["distribution"]["dedup_suffix_added"] = out["distribution"].get("dedup_suffix_added", 0) + 1
        if impl[0] != impl[1]:
            out["distribution"]["dedup_not_idempotent"] = out["distribution"].get("dedup_not_idempotent", 0) + 1
        if m != impl:
            out["disagreements"].append({"label": "dedupTwice", "request": q[1], "model": m, "impl": impl})


def run(seed: int, scale: float, driver: str) -> dict:
    rng = random.Random(seed)
    out = {"comparisons": 0, "disagreements": [], "nontrivial_keys": set(), "rule": RULE, "samples": [],
           "distribution": {"scenarios": {}, "outcomes": {}, "show_diffs": {}, "ref_differing_files": {}}}
    _run_generation(rng, scale, driver, out)
    _run_show_diffs(rng, scale, driver, out)
    _run_imports(rng, scale, driver, out)
    _run_init_exports(rng, scale, driver, out)
    _run_paths(rng, scale, driver, out)
    _run_url_vars(rng, scale, driver, out)
    out["nontrivial"] = len(out.pop("nontrivial_keys"))
    out["disagreements"] = out["disagreements"][:50]
    return out


# ---------------------------------------------------------------------------------------------------------------------
# oracle

def _allowed(rel: str, out_rel: str, core_rel: str) -> bool:
    """C10: inside the output package, inside the core package, or an ancestor package's directory / __init__.py."""
    rel = rel.rstrip("/")
    for base in (out_rel, core_rel):
        if rel == base or rel.startswith(base + "/"):
            return True
        parts = base.split("/")
        for i in range(1, len(parts) + 1):
            anc = "/".join(parts[:i])
            if rel == anc or rel == anc + "/__init__.py":
                return True
    return False


def _diff_snap(a: dict, b: dict) -> list:
    return sorted(k for k in set(a) | set(b) if a.get(k) != b.get(k))


def _eval_c10(base: str, spec_path: str, ref_root: str, case: dict):
    """-> list of failure dicts for one (layout, state, force, fault) case"""
    o, c = case["layout"]
    root = os.path.join(base, "c10_" + hashlib.sha1(json.dumps(case, sort_keys=True).encode()).hexdigest()[:10])
    shutil.rmtree(root, ignore_errors=True)
    _prepare_state(ref_root, root, o, c, case["state"])
    out_rel, core_rel = _pkg_dir(o), _pkg_dir(_core_fqn(o, c))
    out_existed = os.path.exists(os.path.join(root, out_rel))
    before = _snapshot(root)
    outcome, _ = _generate(spec_path, root, o, c, case["force"], case.get("fault"), post=bool(case.get("post")))
    after = _snapshot(root)
    changed = _diff_snap(before, after)
    fails = []
    if not case["force"] and out_existed and changed:
        fails.append({"class": "noforce-modified-tree", "case": case, "observed": changed[:10],
                      "expected": "tree byte-identical (and mtimes untouched) after a non-force run over an existing package"})
    outside = [k for k in changed if not _allowed(k, out_rel, core_rel)]
    if outside:
        fails.append({"class": "write-outside-package", "case": case, "observed": outside[:10],
                      "expected": "only the output package, the core package and ancestor __init__.py files are touched"})
    if case.get("fault") and outcome == "success":
        fails.append({"class": "fault-swallowed", "case": case, "observed": outcome, "expected": "an exception"})
    if not case["force"] and out_existed and not case.get("fault"):
        if case["state"] in ("different",) and outcome == "success":
            fails.append({"class": "diff-not-detected", "case": case, "observed": outcome, "expected": "raises"})
    shutil.rmtree(root, ignore_errors=True)
    return fails


C09_KINDS = ["rerun", "relocate", "edit", "line-endings", "non-py", "missing-file", "extra-file", "rich-init-text",
             "double-emit", "shared-registry"]


def _eval_c09(base: str, case: dict):
    """One C09 case -> list of failures."""
    kind = case["kind"]
    o, c = case["layout"]
    tag = hashlib.sha1(json.dumps(case, sort_keys=True).encode()).hexdigest()[:10]
    spec = SPEC_DUP if kind == "double-emit" else SPEC
    spec_path = _write_spec(base, f"spec_{tag}.json", spec)
    root = os.path.join(base, "c09_" + tag)
    shutil.rmtree(root, ignore_errors=True)
    os.makedirs(root)
    out_rel, core_rel = _pkg_dir(o), _pkg_dir(_core_fqn(o, c))
    fails = []
    oc, _ = _generate(spec_path, root, o, c, True)
    if oc != "success":
        return [{"class": "force-generation-failed", "case": case, "observed": oc, "expected": "success"}]

    def rerun():
        before = _snapshot(root)
        r, _ = _generate(spec_path, root, o, c, False)
        return r, _diff_snap(before, _snapshot(root))

    def expect_fail(cls, what):
        r, ch = rerun()
        if r == "success":
            fails.append({"class": cls, "case": case, "observed": "non-force run reported success although " + what,
                          "expected": "GenerationError"})
        if ch:
            fails.append({"class": "noforce-modified-tree", "case": case, "observed": ch[:10], "expected": "untouched"})

    if kind == "rerun":
        r, ch = rerun()
        if r != "success":
            cls = "rich-init-only-on-force" if c else "rerun-reports-differences"
            fails.append({"class": cls, "case": case, "observed": r,
                          "expected": "a non-force re-run over an up-to-date tree succeeds"})
        if ch:
            fails.append({"class": "noforce-modified-tree", "case": case, "observed": ch[:10], "expected": "untouched"})
    elif kind == "relocate":
        root2 = root + "_b"
        shutil.rmtree(root2, ignore_errors=True)
        os.makedirs(root2)
        _generate(spec_path, root2, o, c, True)
        a, _ = _read_tree(root)
        b, _ = _read_tree(root2)
        if a != b:
            fails.append({"class": "nondeterministic-output", "case": case,
                          "observed": sorted(k for k in set(a) | set(b) if a.get(k) != b.get(k))[:10],
                          "expected": "byte-identical trees in two project roots"})
        # and once more over the same root (prior run present)
        _generate(spec_path, root, o, c, True)
        a2, _ = _read_tree(root)
        if a2 != a:
            fails.append({"class": "depends-on-prior-run", "case": case,
                          "observed": sorted(k for k in set(a) | set(a2) if a.get(k) != a2.get(k))[:10],
                          "expected": "byte-identical tree when regenerating over a previous run"})
        shutil.rmtree(root2, ignore_errors=True)
    elif kind == "edit":
        with open(os.path.join(root, out_rel, "endpoints", "pets.py"), "a") as f:
            f.write("# edited\n")
        expect_fail("diff-not-detected", "endpoints/pets.py was edited")
    elif kind == "line-endings":
        p = os.path.join(root, out_rel, "client.py")
        with open(p, "rb") as f:
            b = f.read()
        with open(p, "wb") as f:
            f.write(b.replace(b"\n", b"\r\n") + b"\r\n")
        expect_fail("diff-ignores-line-endings", "client.py differs in bytes (CRLF terminators, extra final newline)")
    elif kind == "non-py":
        with open(os.path.join(root, core_rel, "README.md"), "a") as f:
            f.write("changed\n")
        with open(os.path.join(root, out_rel, "py.typed"), "w") as f:
            f.write("partial\n")
        expect_fail("diff-ignores-non-py", "README.md and py.typed differ")
    elif kind == "missing-file":
        os.remove(os.path.join(root, out_rel, "models", "pet.py"))
        expect_fail("diff-ignores-missing-file", "models/pet.py is missing")
    elif kind == "extra-file":
        with open(os.path.join(root, out_rel, "models", "stale_model.py"), "w") as f:
            f.write("class Stale: ...\n")
        expect_fail("diff-ignores-extra-file", "models/stale_model.py would not be generated now")
    elif kind == "rich-init-text":
        with open(os.path.join(root, out_rel, "__init__.py")) as f:
            text = f.read()
        if c and "from .client import APIClient" not in text.splitlines():
            fails.append({"class": "rich-init-literal-backslash-n", "case": case, "observed": text[:120],
                          "expected": "an __init__.py whose lines are separated by newlines"})
    elif kind == "double-emit":
        r, ch = rerun()
        if r != "success" and not c:
            fails.append({"class": "force-double-emit", "case": case, "observed": r,
                          "expected": "a non-force re-run over a force-generated tree succeeds"})
        elif r != "success":
            fails.append({"class": "rich-init-only-on-force", "case": case, "observed": r, "expected": "success"})
    elif kind == "shared-registry":
        # a second client with other status codes registers in the same shared core
        spec_b = json.loads(json.dumps(SPEC))
        spec_b["paths"] = {"/things": {"get": {"operationId": "listThings", "summary": "s", "responses": {
            "200": {"description": "ok"}, "409": {"description": "c"}}}}}
        spb = _write_spec(base, f"spec_{tag}_b.json", spec_b)
        other = case["other"]
        oc2, _ = _generate(spb, root, other, c, True)
        before = _snapshot(root)
        r, _ = _generate(spec_path, root, o, c, True)      # regenerate the first client, force
        after1, _ = _read_tree(root)
        r2, ch = rerun()
        if r2 != "success":
            # with an explicit core package the rich __init__ already makes the re-run fail: look at the core only
            with _quiet():
                pass
            fails.append({"class": "shared-core-registry-diff" if _core_differs(base, spec_path, root, o, c)
                          else "rich-init-only-on-force", "case": case, "observed": r2,
                          "expected": "a non-force re-run over an up-to-date tree succeeds"})
    shutil.rmtree(root, ignore_errors=True)
    return fails


def _core_differs(base: str, spec_path: str, root: str, o: str, c) -> bool:
    """Does the diff path report differences in the CORE directory (second `_show_diffs` call)?"""
    from pyopenapi_gen.generator.client_generator import ClientGenerator
    results = []
    orig = ClientGenerator._show_diffs

    def spy(self, old_dir, new_dir):
        r = orig(self, old_dir, new_dir)
        results.append(r)
        return r

    ClientGenerator._show_diffs = spy
    try:
        _generate(spec_path, root, o, c, False)
    finally:
        ClientGenerator._show_diffs = orig
    return len(results) > 1 and bool(results[1])


def _hashseed_trees(base: str, spec: dict, seeds) -> dict:
    """Generate the same document in fresh interpreters with different PYTHONHASHSEED -> {seed: tree}."""
    spec_path = _write_spec(base, "spec_hs.json", spec)
    code = (
        "import sys, io, contextlib, logging\n"
        "from pathlib import Path\n"
        "logging.disable(logging.CRITICAL)\n"
        "from pyopenapi_gen.generator.client_generator import ClientGenerator\n"
        "with contextlib.redirect_stdout(io.StringIO()):\n"
        "    ClientGenerator(verbose=False).generate(sys.argv[1], Path(sys.argv[2]), 'client', force=True, no_postprocess=True)\n"
    )
    trees = {}
    for s in seeds:
        root = os.path.join(base, f"hs_{s}")
        shutil.rmtree(root, ignore_errors=True)
        os.makedirs(root)
        env = dict(os.environ, PYTHONHASHSEED=str(s))
        env["PYTHONPATH"] = os.pathsep.join(p for p in sys.path if p)
        subprocess.run([sys.executable, "-c", code, spec_path, root], env=env, capture_output=True, timeout=300, check=True)
        trees[s] = _read_tree(root)[0]
        shutil.rmtree(root, ignore_errors=True)
    return trees


def _eval_hashseed(base: str, case: dict):
    seeds = case["seeds"]
    spec = SPEC_VARS if case["spec"] == "vars" else SPEC
    trees = _hashseed_trees(base, spec, seeds)
    first = trees[seeds[0]]
    differing = sorted({k for s in seeds[1:] for k in set(first) | set(trees[s]) if first.get(k) != trees[s].get(k)})
    if differing:
        return [{"class": "url-vars-hash-order" if case["spec"] == "vars" else "nondeterministic-output", "case": case,
                 "observed": differing[:10], "expected": "byte-identical trees for every PYTHONHASHSEED"}]
    return []


def _oracle_cases(rng: random.Random, scale: float):
    cases = []
    layouts = LAYOUTS if scale >= 0.5 else LAYOUTS[:3]
    for (o, c) in layouts:
        for st in STATES:
            for force in (True, False):
                faults = [None] + ([s for s, _m, _c in EMITTERS] if (scale >= 1.0 or st == "equal") else [])
                for fl in faults:
                    cases.append({"prop": "C10", "layout": [o, c], "state": st, "force": force, "fault": fl})
    # post-processing enabled (ruff over the generated files): containment must still hold
    for (o, c) in (layouts[1:3] if scale < 1.0 else layouts[1:]):
        for st, force in (("equal", True),) + ((("partial", True),) if scale >= 1.0 else ()):
            cases.append({"prop": "C10", "layout": [o, c], "state": st, "force": force, "fault": None, "post": True})
    for (o, c) in layouts:
        for kind in C09_KINDS:
            if kind == "shared-registry":
                if c is None:
                    continue
                cases.append({"prop": "C09", "kind": kind, "layout": [o, c], "other": "zz_other_client"})
            elif kind == "rich-init-text" and c is None:
                continue
            else:
                cases.append({"prop": "C09", "kind": kind, "layout": [o, c]})
    k = 3 if scale >= 1.0 else 2
    cases.append({"prop": "C09", "kind": "hashseed", "spec": "vars", "seeds": [1, 2, 3, 4, 5][:k + 1]})
    cases.append({"prop": "C09", "kind": "hashseed", "spec": "plain", "seeds": [0, 7]})
    return cases


def _eval_case(base: str, case: dict, refs: dict):
    if case["prop"] == "C10":
        key = json.dumps(case["layout"])
        if key not in refs:
            spec_path = _write_spec(base, "spec.json", SPEC)
            ref_root = os.path.join(base, "oref_" + hashlib.sha1(key.encode()).hexdigest()[:8])
            os.makedirs(ref_root)
            _generate(spec_path, ref_root, case["layout"][0], case["layout"][1], True)
            refs[key] = (spec_path, ref_root)
        spec_path, ref_root = refs[key]
        return _eval_c10(base, spec_path, ref_root, case)
    if case["kind"] == "hashseed":
        return _eval_hashseed(base, case)
    return _eval_c09(base, case)


def oracle(seed: int, scale: float) -> dict:
    rng = random.Random(seed)
    failures, n = [], 0
    with _scratch("oracle") as base:
        refs = {}
        for case in _oracle_cases(rng, scale):
            n += 1
            failures.extend(_eval_case(base, case, refs))
    return {"evaluations": n, "failures": failures}


def replay(case) -> bool:
    case = case.get("case", case) if isinstance(case, dict) and "prop" not in case else case
    with _scratch("replay") as base:
        return bool(_eval_case(base, case, {}))


KNOWN_CLASSES = ["diff-ignores-missing-file", "diff-ignores-extra-file", "diff-ignores-non-py",
                 "diff-ignores-line-endings", "force-double-emit", "rich-init-only-on-force",
                 "rich-init-literal-backslash-n", "url-vars-hash-order", "shared-core-registry-diff"]

if __name__ == "__main__":
    drv = sys.argv[1] if len(sys.argv) > 1 else DEFAULT_DRIVER
    import time
    t0 = time.time()
    r = run(1, float(os.environ.get("CORR_SCALE", "1.0")), drv)
    print(json.dumps({k: r[k] for k in ("comparisons", "nontrivial", "distribution")}, indent=1)[:3000])
    for d in r["disagreements"][:10]:
        print("DISAGREE", json.dumps(d)[:1500])
    print(f"{len(r['disagreements'])} disagreements  ({time.time() - t0:.1f}s)")
    if os.environ.get("CORR_ORACLE", "1") == "1":
        t0 = time.time()
        o = oracle(1, float(os.environ.get("CORR_SCALE", "1.0")))
        by = {}
        for f in o["failures"]:
            by[f["class"]] = by.get(f["class"], 0) + 1
        print("oracle:", o["evaluations"], "evaluations;", json.dumps(by), f"({time.time() - t0:.1f}s)")
        unknown = sorted(set(by) - set(KNOWN_CLASSES))
        print("unexpected classes:", unknown)
        for f in o["failures"]:
            if f["class"] in unknown:
                print("  ", json.dumps(f)[:600])
