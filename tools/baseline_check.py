#!/usr/bin/env python3
"""Run the repository's pinned suite (guard OFF) and compare the passing set with /root/.vp/BASELINE.json."""
import json, os, subprocess, sys, tempfile, xml.etree.ElementTree as ET
out = tempfile.mkdtemp(prefix="baseline-")
env = dict(os.environ); env.pop("PYOPENAPI_GEN_VERIF", None); env["TMPDIR"] = out
junit = os.path.join(out, "j.xml")
p = subprocess.run(["/venv/bin/python", "-m", "pytest", "-q", "-p", "no:cacheprovider", "--timeout=900", "--continue-on-collection-errors",
                    f"--junitxml={junit}", "-x" if "--failfast" in sys.argv else "-q"], cwd="/repo", env=env, capture_output=True, text=True)
passed = set()
for tc in ET.parse(junit).getroot().iter("testcase"):
    if not any(c.tag in ("failure", "error", "skipped") for c in tc):
        passed.add(f"{tc.get('classname')}::{tc.get('name')}")
base = json.load(open("/root/.vp/BASELINE.json"))
stable = base["stable_pass"]
if isinstance(stable, str):
    stable = eval(stable)
missing = sorted(set(stable) - passed)
print(f"passed={len(passed)} baseline={len(stable)} missing_from_baseline={len(missing)}")
for m in missing[:40]:
    print("  MISSING", m)
import shutil; shutil.rmtree(out, ignore_errors=True)
sys.exit(1 if missing else 0)
